(* Equivalence of the generated Gallina of data_preparation.py (Gen/G_data_preparation.v)
   with the hand-written model (Model/Stacking.v). *)
From Coq Require Import String.
From Coq Require Import ZArith QArith List Bool Arith Lia.
From Coq Require Import ZifyBool ZifyNat.
From Ticc Require Import Gen.PyRt Gen.G_data_preparation Model.Stacking.
From Ticc Require Import Proofs.StackingP.
Import ListNotations.

Ltac Zify.zify_post_hook ::= Z.to_euclidean_division_equations.

(* ------------------------------------------------------------------ *)
(* generic list / run-time facts                                       *)
(* ------------------------------------------------------------------ *)

Lemma skipn_add {A : Type} (a b : nat) (l : list A) : skipn (a + b) l = skipn b (skipn a l).
Proof.
  revert l. induction a as [|a IH]; intros l; cbn [Nat.add].
  - rewrite skipn_O. reflexivity.
  - destruct l as [|x l]; [rewrite !skipn_nil; reflexivity|]. cbn [skipn]. apply IH.
Qed.

Lemma py_sum_from (l : list nat) (a : Z) :
  fold_left Z.add (map Z.of_nat l) a = (a + Z.of_nat (list_sum l))%Z.
Proof.
  revert a. induction l as [|n l IH]; intros a; cbn [map fold_left list_sum fold_right].
  - lia.
  - rewrite IH. fold (list_sum l). lia.
Qed.

Lemma py_sum_of_nat (l : list nat) : py_sum (map Z.of_nat l) = Z.of_nat (list_sum l).
Proof. unfold py_sum. rewrite py_sum_from. lia. Qed.

Lemma py_getitem_nat {A : Type} (l : list A) (k : nat) (x : A) :
  nth_error l k = Some x -> py_getitem l (Z.of_nat k) = Ret x.
Proof.
  intros Hn. assert (Hk : (k < length l)%nat) by (apply nth_error_Some; congruence).
  unfold py_getitem, py_len.
  replace (Z.of_nat k <? 0)%Z with false by lia.
  replace ((Z.of_nat k <? 0)%Z || (Z.of_nat (length l) <=? Z.of_nat k)%Z) with false by lia.
  rewrite Nat2Z.id, Hn. reflexivity.
Qed.

Lemma py_slice_nat {A : Type} (l : list A) (a b : nat) :
  (a <= b)%nat -> (b <= length l)%nat ->
  py_slice l (Z.of_nat a) (Z.of_nat b) = firstn (b - a) (skipn a l).
Proof.
  intros Hab Hb. unfold py_slice, slice_norm, py_len.
  replace (Z.of_nat a <? 0)%Z with false by lia.
  replace (Z.of_nat b <? 0)%Z with false by lia.
  replace (Z.min (Z.of_nat a) (Z.of_nat (length l))) with (Z.of_nat a) by lia.
  replace (Z.min (Z.of_nat b) (Z.of_nat (length l))) with (Z.of_nat b) by lia.
  rewrite Nat2Z.id. replace (Z.to_nat (Z.of_nat b - Z.of_nat a)) with (b - a)%nat by lia.
  reflexivity.
Qed.

(* a loop that appends one computed element per iteration *)
Lemma foldM_snoc {X Y : Type} (f : list Y -> X -> res (list Y)) (g : X -> Y) (xs : list X) (acc : list Y) :
  (forall acc x, In x xs -> f acc x = Ret (acc ++ [g x])) ->
  foldM f xs acc = Ret (acc ++ map g xs).
Proof.
  revert acc. induction xs as [|x xs IH]; intros acc H; cbn [foldM map].
  - rewrite app_nil_r. reflexivity.
  - rewrite H by (left; reflexivity). cbn [bind].
    rewrite IH by (intros acc0 x0 Hin; apply H; right; exact Hin).
    rewrite <- app_assoc. reflexivity.
Qed.

(* ------------------------------------------------------------------ *)
(* pad_missing_labels                                                  *)
(* ------------------------------------------------------------------ *)

Lemma front_length_eq (W : nat) : (1 <= W)%nat ->
  py_int_of_float (py_truediv (inject_Z (Z.of_nat W - 1)) (inject_Z 2)) = Z.of_nat (pad_front W).
Proof.
  intros HW. unfold py_int_of_float, py_truediv, Qdiv, Qmult, Qinv, inject_Z, pad_front.
  cbn [Qnum Qden]. change (1 * 2)%positive with 2%positive.
  rewrite Z.mul_1_r. rewrite Z.quot_div_nonneg by lia.
  replace (Z.of_nat W - 1)%Z with (Z.of_nat (W - 1)) by lia.
  rewrite Nat2Z.inj_div. reflexivity.
Qed.

Theorem g_pad_missing_labels_eq : forall (l : list Z) (W : nat),
  (1 <= W)%nat -> g_pad_missing_labels l (Z.of_nat W) = Ret (pad (-1)%Z W l).
Proof.
  intros l W HW. unfold g_pad_missing_labels.
  rewrite (front_length_eq W HW).
  replace (Z.of_nat W - 1 - Z.of_nat (pad_front W))%Z with (Z.of_nat (pad_back W))
    by (pose proof (@pad_front_back W); unfold pad_back in *; lia).
  unfold py_list_repeat. rewrite !Nat2Z.id. change (- (1))%Z with (-1)%Z.
  assert (Hlen : (py_len ((repeat (-1)%Z (pad_front W) ++ l) ++ repeat (-1)%Z (pad_back W))
                  =? py_len l + Z.of_nat W - 1)%Z = true).
  { unfold py_len. rewrite !app_length, !repeat_length.
    pose proof (@pad_front_back W). apply Z.eqb_eq. lia. }
  rewrite Hlen. unfold pad. rewrite <- app_assoc. reflexivity.
Qed.

(* ------------------------------------------------------------------ *)
(* split_joint_labels                                                  *)
(* ------------------------------------------------------------------ *)

Lemma list_sum_cons (n : nat) (l : list nat) : list_sum (n :: l) = (n + list_sum l)%nat.
Proof. reflexivity. Qed.

Lemma list_sum_firstn_S (lens : list nat) (k : nat) :
  list_sum (firstn (S k) lens) = (list_sum (firstn k lens) + nth k lens 0)%nat.
Proof.
  revert k. induction lens as [|n lens IH]; intros k.
  - rewrite !firstn_nil. destruct k; reflexivity.
  - destruct k as [|k].
    + cbn [firstn nth]. rewrite !list_sum_cons. cbn [list_sum fold_right]. lia.
    + change (firstn (S (S k)) (n :: lens)) with (n :: firstn (S k) lens).
      change (firstn (S k) (n :: lens)) with (n :: firstn k lens).
      cbn [nth]. rewrite !list_sum_cons, IH. lia.
Qed.

Lemma list_sum_firstn_le (lens : list nat) (k : nat) :
  (list_sum (firstn k lens) <= list_sum lens)%nat.
Proof.
  rewrite <- (firstn_skipn k lens) at 2. rewrite list_sum_app. lia.
Qed.

Lemma accumulate_from_nth (lens : list nat) : forall (a : nat) (k : nat),
  (k < length lens)%nat ->
  nth_error (accumulate_from (Z.of_nat a) (map Z.of_nat lens)) k
  = Some (Z.of_nat (a + list_sum (firstn (S k) lens))).
Proof.
  induction lens as [|n lens IH]; intros a k Hk; cbn [length] in Hk; [lia|].
  cbn [map accumulate_from].
  replace (Z.of_nat a + Z.of_nat n)%Z with (Z.of_nat (a + n)) by lia.
  destruct k as [|k].
  - cbn [nth_error firstn]. rewrite list_sum_cons. cbn [list_sum fold_right]. do 2 f_equal. lia.
  - cbn [nth_error]. rewrite IH by lia.
    change (firstn (S (S k)) (n :: lens)) with (n :: firstn (S k) lens).
    rewrite list_sum_cons. do 2 f_equal. lia.
Qed.

Lemma py_accumulate_nth (lens : list nat) (k : nat) : (k < length lens)%nat ->
  nth_error (py_accumulate (map Z.of_nat lens)) k = Some (Z.of_nat (list_sum (firstn (S k) lens))).
Proof.
  intros Hk. unfold py_accumulate. change 0%Z with (Z.of_nat 0).
  rewrite accumulate_from_nth by exact Hk. reflexivity.
Qed.

Lemma split_by_as_map {A : Type} (lens : list nat) : forall l : list A,
  split_by lens l
  = map (fun i => firstn (nth i lens 0%nat) (skipn (list_sum (firstn i lens)) l)) (seq 0 (length lens)).
Proof.
  induction lens as [|n lens IH]; intros l; cbn [split_by length seq map]; [reflexivity|].
  cbn [nth firstn list_sum fold_right]. rewrite skipn_O. f_equal.
  rewrite <- seq_shift, map_map, IH. apply map_ext. intros i.
  cbn [nth]. change (firstn (S i) (n :: lens)) with (n :: firstn i lens).
  rewrite list_sum_cons, skipn_add. reflexivity.
Qed.

Lemma split_body (l : list Z) (lens : list nat) (k : nat) (acc : list (list Z)) :
  length l = list_sum lens -> (k < length lens)%nat ->
  (start <- (if (Z.of_nat k =? 0)%Z then Ret 0%Z
             else t3_ <- py_getitem (py_accumulate (map Z.of_nat lens)) (Z.of_nat k - 1) ;; Ret t3_) ;;
   t4_ <- py_getitem (py_accumulate (map Z.of_nat lens)) (Z.of_nat k) ;;
   Ret (acc ++ [py_slice l start t4_]))
  = Ret (acc ++ [firstn (nth k lens 0%nat) (skipn (list_sum (firstn k lens)) l)]).
Proof.
  intros Hl Hk.
  assert (Hstart : (if (Z.of_nat k =? 0)%Z then Ret 0%Z
             else t3_ <- py_getitem (py_accumulate (map Z.of_nat lens)) (Z.of_nat k - 1) ;; Ret t3_)
            = Ret (Z.of_nat (list_sum (firstn k lens)))).
  { destruct k as [|k].
    - reflexivity.
    - replace (Z.of_nat (S k) =? 0)%Z with false by lia.
      replace (Z.of_nat (S k) - 1)%Z with (Z.of_nat k) by lia.
      rewrite (py_getitem_nat _ k _ (py_accumulate_nth lens k ltac:(lia))). reflexivity. }
  rewrite Hstart. cbn [bind].
  rewrite (py_getitem_nat _ k _ (py_accumulate_nth lens k Hk)). cbn [bind].
  pose proof (list_sum_firstn_S lens k) as HS.
  pose proof (list_sum_firstn_le lens (S k)) as Hle.
  rewrite py_slice_nat by lia.
  replace (list_sum (firstn (S k) lens) - list_sum (firstn k lens))%nat with (nth k lens 0%nat) by lia.
  reflexivity.
Qed.

Theorem g_split_joint_labels_eq : forall (lens : list nat) (l : list Z),
  length l = list_sum lens ->
  g_split_joint_labels l (map Z.of_nat lens) = Ret (split_by lens l).
Proof.
  intros lens l Hl. unfold g_split_joint_labels.
  rewrite py_sum_of_nat. unfold py_len at 1. rewrite Hl, Z.eqb_refl.
  unfold py_len. rewrite map_length, zrange_of_nat.
  rewrite (foldM_snoc _
    (fun i : Z => firstn (nth (Z.to_nat i) lens 0%nat) (skipn (list_sum (firstn (Z.to_nat i) lens)) l))).
  - cbn [bind app]. rewrite map_map, split_by_as_map. f_equal. apply map_ext.
    intros i. rewrite Nat2Z.id. reflexivity.
  - intros acc x Hin. apply in_map_iff in Hin. destruct Hin as [k [<- Hk]].
    apply in_seq in Hk. rewrite Nat2Z.id. apply split_body; [exact Hl | lia].
Qed.

Theorem g_split_joint_labels_bad : forall (lens : list nat) (l : list Z),
  length l <> list_sum lens ->
  g_split_joint_labels l (map Z.of_nat lens) = Raise "AssertionError"%string.
Proof.
  intros lens l Hl. unfold g_split_joint_labels.
  rewrite py_sum_of_nat. unfold py_len at 1.
  replace (Z.of_nat (length l) =? Z.of_nat (list_sum lens))%Z with false by lia.
  reflexivity.
Qed.

(* ------------------------------------------------------------------ *)
(* label_switching_cost_template                                       *)
(* ------------------------------------------------------------------ *)

Lemma map_nth_seq {A : Type} (l : list A) (d : A) :
  map (fun i => nth i l d) (seq 0 (length l)) = l.
Proof.
  induction l as [|x l IH]; cbn [length seq map]; [reflexivity|].
  cbn [nth]. f_equal. rewrite <- seq_shift, map_map. exact IH.
Qed.

Lemma set_nth_length {A : Type} (k : nat) (v : A) (l : list A) : length (set_nth k v l) = length l.
Proof.
  revert k. induction l as [|x l IH]; intros k; [destruct k; reflexivity|].
  destruct k as [|k]; cbn [set_nth length]; [reflexivity|]. rewrite IH. reflexivity.
Qed.

Lemma nth_set_nth {A : Type} (k i : nat) (v d : A) (l : list A) : (k < length l)%nat ->
  nth i (set_nth k v l) d = if Nat.eqb i k then v else nth i l d.
Proof.
  revert k i. induction l as [|x l IH]; intros k i Hk; cbn [length] in Hk; [lia|].
  destruct k as [|k]; destruct i as [|i]; cbn [set_nth nth Nat.eqb]; try reflexivity.
  apply IH. lia.
Qed.

Lemma py_set_index_nat {A : Type} (l : list A) (k : nat) (v : A) : (k < length l)%nat ->
  py_set_index l (Z.of_nat k) v = Ret (set_nth k v l).
Proof.
  intros Hk. unfold py_set_index, py_len.
  replace (Z.of_nat k <? 0)%Z with false by lia.
  replace ((Z.of_nat k <? 0)%Z || (Z.of_nat (length l) <=? Z.of_nat k)%Z) with false by lia.
  rewrite Nat2Z.id. reflexivity.
Qed.

(* storing v at in-range positions ks: pointwise description *)
Lemma py_set_indices_nat {A : Type} (v d : A) (ks : list nat) : forall l : list A,
  (forall k, In k ks -> (k < length l)%nat) ->
  py_set_indices l (map Z.of_nat ks) v
  = Ret (map (fun i => if existsb (Nat.eqb i) ks then v else nth i l d) (seq 0 (length l))).
Proof.
  unfold py_set_indices.
  induction ks as [|k ks IH]; intros l Hr; cbn [map foldM existsb].
  - rewrite map_nth_seq. reflexivity.
  - rewrite py_set_index_nat by (apply Hr; left; reflexivity). cbn [bind].
    rewrite IH by (intros k0 Hin; rewrite set_nth_length; apply Hr; right; exact Hin).
    rewrite set_nth_length. f_equal. apply map_ext. intros i.
    rewrite nth_set_nth by (apply Hr; left; reflexivity).
    destruct (Nat.eqb i k); cbn [orb]; [|reflexivity].
    destruct (existsb (Nat.eqb i) ks); reflexivity.
Qed.

Lemma endpoints_eq (lens : list nat) : forall a : nat,
  Forall (fun n => (1 <= n)%nat) lens ->
  map (fun e => (e - 1)%Z) (removelast (accumulate_from (Z.of_nat a) (map Z.of_nat lens)))
  = map Z.of_nat (boundary_pairs_from a lens).
Proof.
  induction lens as [|n rest IH]; intros a Hpos; [reflexivity|].
  pose proof (Forall_inv Hpos) as Hn. cbv beta in Hn. pose proof (Forall_inv_tail Hpos) as Hrest.
  destruct rest as [|n2 rest'].
  - reflexivity.
  - specialize (IH (a + n)%nat Hrest).
    cbn [boundary_pairs_from]. cbn [map accumulate_from] in IH |- *.
    cbn [removelast] in IH |- *. cbn [map].
    replace (Z.of_nat a + Z.of_nat n)%Z with (Z.of_nat (a + n)) by lia.
    f_equal; [lia|]. exact IH.
Qed.

Lemma boundary_pairs_in_range (lens : list nat) (i : nat) :
  Forall (fun n => (1 <= n)%nat) lens -> In i (boundary_pairs lens) -> (i < list_sum lens)%nat.
Proof.
  intros Hpos Hin. unfold boundary_pairs in Hin.
  apply (boundary_pairs_from_spec lens 0 i Hpos) in Hin. destruct Hin as [j [_ Hj]].
  pose proof (list_sum_firstn_le lens (S j)). lia.
Qed.

(* ------------------------------------------------------------------ *)
(* 2-D array primitives                                                *)
(* ------------------------------------------------------------------ *)

Lemma nth_error_mid {A : Type} (pre post : list A) (x : A) :
  nth_error (pre ++ x :: post) (length pre) = Some x.
Proof. rewrite nth_error_app2 by lia. rewrite Nat.sub_diag. reflexivity. Qed.

Lemma set_nth_mid {A : Type} (pre post : list A) (x y : A) :
  set_nth (length pre) y (pre ++ x :: post) = pre ++ y :: post.
Proof.
  induction pre as [|p pre IH]; cbn [length app set_nth]; [reflexivity|]. rewrite IH. reflexivity.
Qed.

(* a[i, s:e] = row where row i is P ++ Z0 ++ R, s = |P|, e = |P| + |row|, |Z0| = |row| *)
Lemma np_set_row_slice_mid {A : Type} (r c : Z) (pre post : list (list A)) (P Z0 R row : list A) :
  length Z0 = length row ->
  np_set_row_slice (mk_arr2 r c (pre ++ (P ++ Z0 ++ R) :: post)) (Z.of_nat (length pre))
     (Z.of_nat (length P)) (Z.of_nat (length P + length row)) row
  = Ret (mk_arr2 r c (pre ++ (P ++ row ++ R) :: post)).
Proof.
  intros HZ. unfold np_set_row_slice. cbn [a_cells a_rows a_cols].
  rewrite (py_getitem_nat _ _ _ (nth_error_mid pre post _)). cbn [bind]. cbv zeta.
  unfold py_len, slice_norm. rewrite !app_length.
  replace (Z.of_nat (length P) <? 0)%Z with false by lia.
  replace (Z.of_nat (length P + length row) <? 0)%Z with false by lia.
  replace (Z.of_nat (length pre) <? 0)%Z with false by lia.
  rewrite !Z.min_l by lia.
  replace (Z.to_nat (Z.of_nat (length P + length row) - Z.of_nat (length P))) with (length row) by lia.
  rewrite Nat.eqb_refl, !Nat2Z.id, set_nth_mid.
  unfold splice.
  rewrite firstn_app, firstn_all, Nat.sub_diag, firstn_O, app_nil_r.
  rewrite skipn_add. rewrite skipn_app, skipn_all, Nat.sub_diag, skipn_O. cbn [app].
  rewrite <- HZ, skipn_app, skipn_all, Nat.sub_diag, skipn_O. reflexivity.
Qed.

Lemma np_vstack_uniform {A : Type} (l : list (arr2 A)) (c : Z) :
  l <> [] -> (forall a, In a l -> a_cols a = c) ->
  np_vstack l = Ret (mk_arr2 (py_sum (map a_rows l)) c (concat (map a_cells l))).
Proof.
  intros Hne Hc. destruct l as [|a0 l']; [congruence|]. unfold np_vstack.
  assert (Hall : forallb (fun a => (a_cols a =? a_cols a0)%Z) (a0 :: l') = true).
  { apply forallb_forall. intros a Ha. apply Z.eqb_eq.
    rewrite (Hc a Ha), (Hc a0 (or_introl eq_refl)). reflexivity. }
  rewrite Hall, (Hc a0 (or_introl eq_refl)). reflexivity.
Qed.

Section Arrays.
  Variable F : Type.
  Variables f0 f1 : F.

  (* every stacked length is >= 1 in every call the front end makes; at least one series *)
  Theorem g_label_switching_cost_template_eq : forall lens : list nat,
    lens <> [] -> Forall (fun n => (1 <= n)%nat) lens ->
    g_label_switching_cost_template F f0 f1 (map Z.of_nat lens)
    = Ret (map (fun b : bool => if b then f1 else f0) (template lens)).
  Proof.
    intros lens Hne Hpos. unfold g_label_switching_cost_template.
    assert (Hpop : py_pop_last (py_accumulate (map Z.of_nat lens))
                   = Ret (removelast (py_accumulate (map Z.of_nat lens)))).
    { destruct lens as [|n lens']; [congruence|]. reflexivity. }
    rewrite Hpop. cbn [bind]. rewrite py_sum_of_nat.
    unfold np_full1. replace (Z.of_nat (list_sum lens) <? 0)%Z with false by lia.
    cbn [bind]. rewrite Nat2Z.id.
    unfold py_accumulate. change 0%Z with (Z.of_nat 0) at 1.
    rewrite (endpoints_eq lens 0 Hpos). fold (boundary_pairs lens).
    rewrite (py_set_indices_nat f0 f1)
      by (intros k Hin; rewrite repeat_length; apply boundary_pairs_in_range; assumption).
    rewrite repeat_length. cbn [bind]. unfold template. rewrite map_map. f_equal.
    apply map_ext_in. intros i Hi. apply in_seq in Hi.
    rewrite nth_repeat_in by lia.
    destruct (existsb (Nat.eqb i) (boundary_pairs lens)); reflexivity.
  Qed.

  (* ---------------------------------------------------------------- *)
  (* stack_training_data                                               *)
  (* ---------------------------------------------------------------- *)

  Definition inner_body (D : arr2 F) (i : Z) (s : arr2 F) (j : Z) : res (arr2 F) :=
    t2_ <- np_row D (i + j) ;;
    s' <- np_set_row_slice s i (j * a_cols D) ((j + 1) * a_cols D) t2_ ;;
    Ret s'.

  Lemma g_stack_unfold (D : arr2 F) (W : Z) :
    g_stack_training_data F f0 D W =
    (t1_ <- np_zeros2 f0 (a_rows D - W + 1) (a_cols D * W) ;;
     s <- foldM (fun s i => s' <- foldM (inner_body D i) (zrange W) s ;; Ret s')
                (zrange (a_rows D - W + 1)) t1_ ;;
     Ret s).
  Proof. reflexivity. Qed.

  Lemma inner_step (data : list (list F)) (N : nat) (r c : Z) (pre post : list (list F))
        (j : nat) (P R : list F) :
    Forall (fun row => length row = N) data ->
    (length pre + j < length data)%nat -> length P = (j * N)%nat ->
    inner_body (mk_arr2 (Z.of_nat (length data)) (Z.of_nat N) data) (Z.of_nat (length pre))
       (mk_arr2 r c (pre ++ (P ++ repeat f0 N ++ R) :: post)) (Z.of_nat j)
    = Ret (mk_arr2 r c (pre ++ (P ++ nth (length pre + j) data [] ++ R) :: post)).
  Proof.
    intros Hd Hij HP. unfold inner_body, np_row. cbn [a_cells a_cols].
    replace (Z.of_nat (length pre) + Z.of_nat j)%Z with (Z.of_nat (length pre + j)) by lia.
    rewrite (py_getitem_nat _ _ _ (nth_error_nth' data [] Hij)). cbn [bind].
    assert (Hrow : length (nth (length pre + j) data []) = N)
      by (rewrite Forall_forall in Hd; apply Hd, nth_In, Hij).
    replace (Z.of_nat j * Z.of_nat N)%Z with (Z.of_nat (length P)) by (rewrite HP; lia).
    replace ((Z.of_nat j + 1) * Z.of_nat N)%Z
      with (Z.of_nat (length P + length (nth (length pre + j) data []))) by (rewrite Hrow, HP; lia).
    rewrite np_set_row_slice_mid by (rewrite repeat_length, Hrow; reflexivity). reflexivity.
  Qed.

  Lemma inner_loop (data : list (list F)) (N W : nat) (r c : Z) (pre post : list (list F)) :
    Forall (fun row => length row = N) data -> (length pre + W <= length data)%nat ->
    forall j0 : nat, (j0 <= W)%nat ->
    foldM (inner_body (mk_arr2 (Z.of_nat (length data)) (Z.of_nat N) data) (Z.of_nat (length pre)))
          (map Z.of_nat (seq 0 j0)) (mk_arr2 r c (pre ++ repeat f0 (N * W) :: post))
    = Ret (mk_arr2 r c
             (pre ++ (concat (map (fun j => nth (length pre + j) data []) (seq 0 j0))
                      ++ repeat f0 (N * (W - j0))) :: post)).
  Proof.
    intros Hd Hi. induction j0 as [|j0 IH]; intros Hj.
    - cbn [seq map foldM concat app]. rewrite Nat.sub_0_r. reflexivity.
    - rewrite seq_S, map_app, foldM_app, IH by lia. cbn [bind Nat.add map foldM].
      replace (N * (W - j0))%nat with (N + N * (W - S j0))%nat by nia.
      rewrite repeat_app.
      rewrite inner_step; [| exact Hd | lia | ].
      + cbn [bind]. rewrite map_app, concat_app. cbn [map concat].
        rewrite app_nil_r, <- app_assoc. reflexivity.
      + rewrite (concat_uniform_length N), map_length, seq_length; [reflexivity|].
        apply window_parts_uniform; [exact Hd | lia].
  Qed.

  Lemma outer_loop (data : list (list F)) (N W : nat) (r c : Z) (nw : nat) :
    Forall (fun row => length row = N) data -> (nw + W <= length data + 1)%nat ->
    forall i0 : nat, (i0 <= nw)%nat ->
    foldM (fun s i =>
             s' <- foldM (inner_body (mk_arr2 (Z.of_nat (length data)) (Z.of_nat N) data) i)
                         (zrange (Z.of_nat W)) s ;; Ret s')
          (map Z.of_nat (seq 0 i0)) (mk_arr2 r c (repeat (repeat f0 (N * W)) nw))
    = Ret (mk_arr2 r c (map (window W data) (seq 0 i0) ++ repeat (repeat f0 (N * W)) (nw - i0))).
  Proof.
    intros Hd Hnw. induction i0 as [|i0 IH]; intros Hi.
    - cbn [seq map foldM app]. rewrite Nat.sub_0_r. reflexivity.
    - rewrite seq_S, map_app, foldM_app, IH by lia. cbn [bind Nat.add map foldM].
      replace (nw - i0)%nat with (S (nw - S i0)) by lia. cbn [repeat].
      rewrite zrange_of_nat.
      pose proof (inner_loop data N W r c (map (window W data) (seq 0 i0))
                    (repeat (repeat f0 (N * W)) (nw - S i0)) Hd) as HI.
      rewrite map_length, seq_length in HI. rewrite (HI ltac:(lia) W (le_n W)).
      cbn [bind]. rewrite Nat.sub_diag, Nat.mul_0_r. cbn [repeat]. rewrite app_nil_r.
      fold (window W data i0). rewrite map_app. cbn [map]. rewrite <- app_assoc. reflexivity.
  Qed.

  (* a T x N array: T rows of N elements each.  W >= 1 and T >= W - 1 (so T - W + 1 >= 0). *)
  Theorem g_stack_training_data_eq : forall (data : list (list F)) (N W : nat),
    Forall (fun row => length row = N) data -> (1 <= W)%nat -> (W <= length data + 1)%nat ->
    g_stack_training_data F f0 (mk_arr2 (Z.of_nat (length data)) (Z.of_nat N) data) (Z.of_nat W)
    = Ret (mk_arr2 (Z.of_nat (num_windows W (length data))) (Z.of_nat (N * W)) (stack W data)).
  Proof.
    intros data N W Hd HW HT. rewrite g_stack_unfold. cbn [a_rows a_cols].
    replace (Z.of_nat (length data) - Z.of_nat W + 1)%Z
      with (Z.of_nat (num_windows W (length data))) by (unfold num_windows; lia).
    replace (Z.of_nat N * Z.of_nat W)%Z with (Z.of_nat (N * W)) by lia.
    unfold np_zeros2.
    replace ((Z.of_nat (num_windows W (length data)) <? 0)%Z || (Z.of_nat (N * W) <? 0)%Z)
      with false by lia.
    cbn [bind]. rewrite !Nat2Z.id, (zrange_of_nat (num_windows W (length data))).
    rewrite (outer_loop data N W _ _ (num_windows W (length data)) Hd)
      by (unfold num_windows; lia).
    cbn [bind]. rewrite Nat.sub_diag. cbn [repeat]. rewrite app_nil_r. reflexivity.
  Qed.

  (* ---------------------------------------------------------------- *)
  (* stack_training_data_multiple_series                               *)
  (* ---------------------------------------------------------------- *)

  Lemma mapM_stack (series : list (list (list F))) (N W : nat) :
    Forall (fun data => Forall (fun row => length row = N) data /\ (W <= length data + 1)%nat) series ->
    (1 <= W)%nat ->
    mapM (fun data => t1_ <- g_stack_training_data F f0 data (Z.of_nat W) ;; Ret t1_)
         (map (fun data => mk_arr2 (Z.of_nat (length data)) (Z.of_nat N) data) series)
    = Ret (map (fun data => mk_arr2 (Z.of_nat (num_windows W (length data))) (Z.of_nat (N * W))
                                    (stack W data)) series).
  Proof.
    intros HF HW. induction series as [|d series IH]; cbn [map mapM]; [reflexivity|].
    pose proof (Forall_inv HF) as [Hd HT]. pose proof (Forall_inv_tail HF) as HF'.
    rewrite g_stack_training_data_eq by assumption. cbn [bind].
    rewrite (IH HF'). cbn [bind]. reflexivity.
  Qed.

  Theorem g_stack_training_data_multiple_series_eq : forall (series : list (list (list F))) (N W : nat),
    series <> [] ->
    Forall (fun data => Forall (fun row => length row = N) data /\ (W <= length data + 1)%nat) series ->
    (1 <= W)%nat ->
    g_stack_training_data_multiple_series F f0
      (map (fun data => mk_arr2 (Z.of_nat (length data)) (Z.of_nat N) data) series) (Z.of_nat W)
    = Ret (mk_arr2 (Z.of_nat (list_sum (map (fun data => num_windows W (length data)) series)))
                   (Z.of_nat (N * W)) (stack_multi W series)).
  Proof.
    intros series N W Hne HF HW. unfold g_stack_training_data_multiple_series.
    rewrite (mapM_stack series N W HF HW). cbn [bind].
    set (g := fun data : list (list F) =>
                mk_arr2 (Z.of_nat (num_windows W (length data))) (Z.of_nat (N * W)) (stack W data)).
    rewrite (np_vstack_uniform (map g series) (Z.of_nat (N * W))).
    - cbn [bind].
      assert (Hrows : map a_rows (map g series)
                      = map Z.of_nat (map (fun data => num_windows W (length data)) series))
        by (rewrite !map_map; apply map_ext; reflexivity).
      assert (Hcells : map a_cells (map g series) = map (stack W) series)
        by (rewrite map_map; apply map_ext; reflexivity).
      rewrite Hrows, Hcells, py_sum_of_nat. reflexivity.
    - destruct series as [|s0 ss]; [congruence | discriminate].
    - intros a Ha. apply in_map_iff in Ha. destruct Ha as [d [<- _]]. reflexivity.
  Qed.
End Arrays.

Print Assumptions g_stack_training_data_multiple_series_eq.
