(* Second tie: admm/solver.compute_lambda_sum AS TRANSLATED from /repo's working tree by vcheck/py2coq.py (Gen/G_solver.v,
   regenerated on every run; the isinstance dispatch is rendered on a three-way value: real scalar / 2-D array / anything
   else; math.fsum is an uninterpreted symbol) equals the two branches of the model (Model/Admm.lambda_sum_scalar,
   lambda_sum_matrix), for every carrier and every Toeplitz class.  Closed under the global context. *)
From Coq Require Import String ZArith List Bool Lia Arith.
From Ticc Require Import Gen.PyRt Gen.G_unique_values Gen.G_solver Model.Viterbi Model.TriIndex Model.Admm
     Proofs.TriIndexP Proofs.GenEquivUV Proofs.GenEquivMC.
Import ListNotations.

Section L.
  Variable F : Type.
  Variable mul : F -> F -> F.
  Variable of_nat : nat -> F.
  Variable of_int : Z -> F.
  Variable fsum : list F -> F.
  Hypothesis of_int_nat : forall n : nat, of_int (Z.of_nat n) = of_nat n.

  Theorem g_lambda_scalar_eq (lam : F) (b r c N W : nat) : (b < W)%nat ->
    g_compute_lambda_sum F mul of_int fsum (LamScalar lam) (Z.of_nat b) (Z.of_nat r) (Z.of_nat c) (Z.of_nat N) (Z.of_nat W)
    = Ret (lambda_sum_scalar mul of_nat lam b W).
  Proof.
    intros Hb. unfold g_compute_lambda_sum. cbn [lam_is_real lam_is_array negb andb lam_float bind].
    unfold lambda_sum_scalar. rewrite <- of_int_nat. rewrite Nat2Z.inj_sub by lia. reflexivity.
  Qed.

  Theorem g_lambda_other (b r c N W : Z) :
    g_compute_lambda_sum F mul of_int fsum LamOther b r c N W = Raise "ValueError"%string.
  Proof. reflexivity. Qed.

  Theorem g_lambda_matrix_eq (lamM : nat -> nat -> F) (b r c N W : nat) :
    (b < W)%nat -> (1 <= N)%nat -> (r < N)%nat -> (c < N)%nat ->
    g_compute_lambda_sum F mul of_int fsum
       (LamArray (mk_arr2 (Z.of_nat (N * W)) (Z.of_nat (N * W)) (matrix_rows (N * W) lamM)))
       (Z.of_nat b) (Z.of_nat r) (Z.of_nat c) (Z.of_nat N) (Z.of_nat W)
    = Ret (lambda_sum_matrix fsum lamM b r c N W).
  Proof.
    intros Hb HN Hr Hc. unfold g_compute_lambda_sum. cbn [lam_is_real lam_is_array negb andb].
    rewrite (g_locations_index_slices_eq b r c N W Hb HN). cbn [bind fst snd].
    unfold lam_take2, np_take2, locations_slices. cbn [fst snd].
    rewrite !map_length, Nat.eqb_refl.
    rewrite !map_map, mc_combine_map, mc_mapM_map.
    rewrite (mapM_pure _ (fun RC => lamM (fst RC) (snd RC))).
    - cbn [bind]. unfold lambda_sum_matrix. reflexivity.
    - intros [R C] Hin. cbn [fst snd].
      apply class_positions_In in Hin. destruct Hin as [i [Hi [HR HC]]].
      apply mc_get2_rows; subst R C; nia.
  Qed.
End L.
Print Assumptions g_lambda_scalar_eq.
Print Assumptions g_lambda_other.
Print Assumptions g_lambda_matrix_eq.
