(* Second tie, floating-point kernels: admm/solver.py's soft_threshold_prox, admm_update_u and admm_update_z AS TRANSLATED
   from /repo's working tree by vcheck/py2coq.py (Gen/G_solver.v, regenerated on every run) equal the hand-written model
   Model/Admm.v, for every carrier.  np.sum and compute_lambda_sum are uninterpreted in the translation; the theorem
   instantiates np.sum with the model's pairwise summation and relates compute_lambda_sum to the model's per-class weight
   by hypothesis.  Closed under the global context. *)
From Coq Require Import String ZArith List Bool Lia Arith.
From Ticc Require Import Gen.PyRt Gen.G_unique_values Gen.G_solver Model.Viterbi Model.TriIndex Model.Admm Proofs.GenEquivUV.
Import ListNotations.

Section E.
  Variable F : Type.
  Variables (zero one : F) (add sub mul div : F -> F -> F) (sqrt : F -> F) (ltb leb : F -> F -> bool).
  Variable of_nat : nat -> F.
  Variable of_int : Z -> F.
  Variable fsum : list F -> F.
  Variable L : Type.

  (* the three facts about int -> float conversion the Python code relies on *)
  Hypothesis of_int_0 : of_int 0%Z = zero.
  Hypothesis of_int_m1 : of_int (-1)%Z = sub zero one.
  Hypothesis of_int_nat : forall n : nat, of_int (Z.of_nat n) = of_nat n.

  (* STATEMENTS (to be proved):
  Theorem g_soft_threshold_eq (s q rr : F) :
    g_soft_threshold_prox F add sub mul div ltb of_int s q rr = Ret (soft_threshold zero one add sub mul div ltb s q rr).

  Theorem g_admm_update_u_eq (u x z : list F) :
    length u = length x -> length x = length z ->
    g_admm_update_u F add sub u x z = Ret (u_update add sub u x z).

  Theorem g_admm_update_z_eq (N W : nat) (rho : F) (lam : L) (lam_of : nat -> nat -> nat -> F)
          (cls : L -> Z -> Z -> Z -> Z -> Z -> res F) (u x : list F) :
    (1 <= N)%nat -> (1 <= W)%nat ->
    length x = (N * W * (N * W + 1) / 2)%nat -> length u = length x ->
    (forall b r c : nat, (b < W)%nat -> (r < N)%nat -> (c < N)%nat -> (b = 0%nat -> (r <= c)%nat) ->
       cls lam (Z.of_nat b) (Z.of_nat r) (Z.of_nat c) (Z.of_nat N) (Z.of_nat W) = Ret (lam_of b r c)) ->
    g_admm_update_z F zero add sub mul div ltb of_int L (np_sum zero add) cls
                    (mk_admm_args (Z.of_nat W) (Z.of_nat N) rho lam) u x
    = Ret (z_update zero one add sub mul div ltb of_nat rho lam_of N W u x).
  *)
End E.

Check g_soft_threshold_prox. Check g_admm_update_u. Check g_admm_update_z. Check z_update. Check soft_threshold. Check u_update.
(* sanity on an integer carrier *)
Definition xs : list Z := [3;1;4;1;5;9;2;6;5;3]%Z.
Definition us : list Z := [2;7;1;8;2;8;1;8;2;8]%Z.
Eval vm_compute in g_admm_update_z Z 0%Z Z.add Z.sub Z.mul Z.div Z.ltb (fun z => z) unit (np_sum 0%Z Z.add)
   (fun _ b r c N W => Ret (b + 2*r + c)%Z) (mk_admm_args 2 2 3%Z tt) us xs.
Eval vm_compute in z_update 0%Z 1%Z Z.add Z.sub Z.mul Z.div Z.ltb Z.of_nat 3%Z (fun b r c => Z.of_nat (b + 2*r + c)) 2 2 us xs.
