(* Second tie, floating-point kernels: admm/solver.py's soft_threshold_prox, admm_update_u and admm_update_z AS TRANSLATED
   from /repo's working tree by vcheck/py2coq.py (Gen/G_solver.v, regenerated on every run) equal the hand-written model
   Model/Admm.v, for every carrier.  np.sum and compute_lambda_sum are uninterpreted in the translation; the theorem
   instantiates np.sum with the model's pairwise summation and relates compute_lambda_sum to the model's per-class weight
   by hypothesis.  Closed under the global context. *)
From Coq Require Import String ZArith List Bool Lia Arith.
From Ticc Require Import Gen.PyRt Gen.G_unique_values Gen.G_solver Model.Viterbi Model.TriIndex Model.Admm Proofs.TriIndexP Proofs.GenEquivUV.
Import ListNotations.

(* ---------- generic monad / loop facts ---------- *)
Lemma bind_ret_r {A : Type} (m : res A) : bind m (fun a => Ret a) = m.
Proof. destruct m as [a|e]; reflexivity. Qed.

Lemma foldM_ext_in {S X : Type} (f g : S -> X -> res S) (xs : list X) (s : S) :
  (forall s x, In x xs -> f s x = g s x) -> foldM f xs s = foldM g xs s.
Proof.
  revert s. induction xs as [|x xs IH]; intros s H; cbn [foldM]; [reflexivity|].
  rewrite H by (left; reflexivity). destruct (g s x) as [s'|e]; cbn [bind]; [|reflexivity].
  apply IH. intros s0 x0 Hin. apply H. right. exact Hin.
Qed.

Lemma foldM_map {S X Y : Type} (f : S -> Y -> res S) (h : X -> Y) (xs : list X) (s : S) :
  foldM f (map h xs) s = foldM (fun s x => f s (h x)) xs s.
Proof.
  revert s. induction xs as [|x xs IH]; intros s; cbn [map foldM]; [reflexivity|].
  destruct (f s (h x)) as [s'|e]; cbn [bind]; [apply IH|reflexivity].
Qed.

Lemma foldM_flat_map {S X Y : Type} (f : S -> Y -> res S) (g : X -> list Y) (xs : list X) (s : S) :
  foldM f (flat_map g xs) s = foldM (fun s x => foldM f (g x) s) xs s.
Proof.
  revert s. induction xs as [|x xs IH]; intros s; cbn [flat_map foldM]; [reflexivity|].
  rewrite foldM_app. destruct (foldM f (g x) s) as [s'|e]; cbn [bind]; [apply IH|reflexivity].
Qed.

(* a loop whose body does not raise on states satisfying an invariant is a fold_left *)
Lemma foldM_inv {S X : Type} (P : S -> Prop) (f : S -> X -> res S) (g : S -> X -> S) (xs : list X) (s : S) :
  P s -> (forall s x, In x xs -> P s -> f s x = Ret (g s x) /\ P (g s x)) ->
  foldM f xs s = Ret (fold_left g xs s).
Proof.
  revert s. induction xs as [|x xs IH]; intros s Hs H; cbn [foldM fold_left]; [reflexivity|].
  destruct (H s x (or_introl eq_refl) Hs) as [Hf Hg]. rewrite Hf. cbn [bind].
  apply IH; [exact Hg|]. intros s0 x0 Hin. apply H. right. exact Hin.
Qed.

Lemma zrange2_of_nat (s n : nat) : zrange2 (Z.of_nat s) (Z.of_nat n) = map Z.of_nat (seq s (n - s)).
Proof.
  unfold zrange2.
  replace (Z.to_nat (Z.of_nat n - Z.of_nat s)) with (n - s)%nat by lia.
  generalize (n - s)%nat as m. induction m as [|m IHm]; [reflexivity|].
  rewrite !seq_S, !map_app, IHm. cbn [map]. do 2 f_equal. lia.
Qed.

(* the three nested loops of admm_update_z enumerate [classes N W] *)
Lemma nested_loops {S : Type} (body : Z -> Z -> Z -> S -> res S) (N W : nat) (s : S) :
  foldM (fun s b =>
           s' <- foldM (fun s r =>
                    s'' <- foldM (fun s c => body b r c s)
                                 (zrange2 (if (b =? 0)%Z then r else 0%Z) (Z.of_nat N)) s ;;
                    Ret s'') (zrange (Z.of_nat N)) s ;;
           Ret s') (zrange (Z.of_nat W)) s
  = foldM (fun s brc => let '(b, r, c) := brc in body (Z.of_nat b) (Z.of_nat r) (Z.of_nat c) s) (classes N W) s.
Proof.
  unfold classes. rewrite foldM_flat_map, (zrange_of_nat W), foldM_map.
  apply foldM_ext_in. intros s0 b _. rewrite bind_ret_r.
  rewrite foldM_flat_map, (zrange_of_nat N), foldM_map.
  apply foldM_ext_in. intros s1 r _. rewrite bind_ret_r.
  replace (if (Z.of_nat b =? 0)%Z then Z.of_nat r else 0%Z)
    with (Z.of_nat (if Nat.eqb b 0 then r else 0%nat)) by (destruct b; reflexivity).
  rewrite zrange2_of_nat, !foldM_map. reflexivity.
Qed.

(* ---------- list primitives ---------- *)
Lemma py_map2_map2 {A B C : Type} (f : A -> B -> C) (l1 : list A) (l2 : list B) :
  py_map2 f l1 l2 = map2 f l1 l2.
Proof.
  (* the two fixpoints have the same body, hence are convertible *)
  reflexivity.
Qed.

Lemma map2_length_eq {A B C : Type} (f : A -> B -> C) (l1 : list A) (l2 : list B) :
  length l1 = length l2 -> length (map2 f l1 l2) = length l1.
Proof.
  revert l2. induction l1 as [|a l1 IH]; intros l2 H; destruct l2 as [|b l2]; cbn [map2 length] in *; try reflexivity; try discriminate.
  f_equal. apply IH. now injection H.
Qed.

Lemma np_bin_vv_eq {A : Type} (f : A -> A -> A) (a b : list A) :
  length a = length b -> np_bin_vv f a b = Ret (map2 f a b).
Proof.
  intros H. unfold np_bin_vv. rewrite H, Nat.eqb_refl, py_map2_map2. reflexivity.
Qed.

Lemma set_nth_set_at {A : Type} (l : list A) (k : nat) (v : A) : set_nth k v l = set_at l k v.
Proof.
  revert k. induction l as [|a l IH]; intros k; destruct k as [|k]; cbn [set_nth set_at]; try reflexivity.
  now rewrite IH.
Qed.

Lemma set_at_len {A : Type} (l : list A) (k : nat) (v : A) : length (set_at l k v) = length l.
Proof.
  revert k. induction l as [|a l IH]; intros k; destruct k as [|k]; cbn [set_at length]; try reflexivity.
  now rewrite IH.
Qed.

Lemma set_all_len {A : Type} (idx : list nat) (l : list A) (v : A) : length (set_all l idx v) = length l.
Proof.
  unfold set_all. revert l. induction idx as [|k idx IH]; intros l; cbn [fold_left]; [reflexivity|].
  rewrite IH. apply set_at_len.
Qed.

Lemma py_set_index_nat {A : Type} (l : list A) (k : nat) (v : A) :
  (k < length l)%nat -> py_set_index l (Z.of_nat k) v = Ret (set_at l k v).
Proof.
  intros Hk. unfold py_set_index, py_len. cbv zeta.
  assert (E1 : (Z.of_nat k <? 0)%Z = false) by (apply Z.ltb_ge; lia).
  assert (E2 : (Z.of_nat (length l) <=? Z.of_nat k)%Z = false) by (apply Z.leb_gt; lia).
  rewrite E1. cbv iota. rewrite E1, E2. cbn [orb]. rewrite Nat2Z.id, set_nth_set_at. reflexivity.
Qed.

Lemma py_set_indices_nat {A : Type} (idx : list nat) (l : list A) (v : A) :
  (forall k, In k idx -> (k < length l)%nat) ->
  py_set_indices l (map Z.of_nat idx) v = Ret (set_all l idx v).
Proof.
  unfold py_set_indices, set_all. revert l.
  induction idx as [|k idx IH]; intros l H; cbn [map foldM fold_left]; [reflexivity|].
  rewrite py_set_index_nat by (apply H; left; reflexivity). cbn [bind].
  apply IH. intros j Hj. rewrite set_at_len. apply H. right. exact Hj.
Qed.

Lemma py_getitem_nat {A : Type} (l : list A) (k : nat) (d : A) :
  (k < length l)%nat -> py_getitem l (Z.of_nat k) = Ret (nth k l d).
Proof.
  intros Hk. unfold py_getitem, py_len. cbv zeta.
  assert (E1 : (Z.of_nat k <? 0)%Z = false) by (apply Z.ltb_ge; lia).
  assert (E2 : (Z.of_nat (length l) <=? Z.of_nat k)%Z = false) by (apply Z.leb_gt; lia).
  rewrite E1. cbv iota. rewrite E1, E2. cbn [orb]. rewrite Nat2Z.id, (nth_error_nth' l d Hk). reflexivity.
Qed.

Lemma mapM_getitem_nat {A : Type} (l : list A) (idx : list nat) (d : A) :
  (forall k, In k idx -> (k < length l)%nat) ->
  mapM (py_getitem l) (map Z.of_nat idx) = Ret (map (fun k => nth k l d) idx).
Proof.
  intros H. rewrite (mapM_pure _ (fun z => nth (Z.to_nat z) l d)).
  - rewrite map_map. f_equal. apply map_ext. intros k. now rewrite Nat2Z.id.
  - intros z Hin. apply in_map_iff in Hin. destruct Hin as [k [Hz Hin]]. subst z.
    rewrite Nat2Z.id. apply py_getitem_nat. apply H. exact Hin.
Qed.

Section E.
  Variable F : Type.
  Variables (zero one : F) (add sub mul div : F -> F -> F) (sqrt : F -> F) (ltb leb : F -> F -> bool).
  Variable of_nat : nat -> F.
  Variable of_int : Z -> F.
  Variable fsum : list F -> F.
  Variable L : Type.

  (* the three facts about int -> float conversion the Python code relies on *)
  Hypothesis of_int_0 : of_int 0%Z = zero.
  Hypothesis of_int_m1 : of_int (-1)%Z = sub zero one.
  Hypothesis of_int_nat : forall n : nat, of_int (Z.of_nat n) = of_nat n.

  Theorem g_soft_threshold_eq (s q rr : F) :
    g_soft_threshold_prox F add sub mul div ltb of_int s q rr = Ret (soft_threshold zero one add sub mul div ltb s q rr).
  Proof.
    unfold g_soft_threshold_prox, soft_threshold, pmax0, pmin0.
    change (of_int (- (1))%Z) with (of_int (-1)%Z).
    rewrite of_int_0, of_int_m1.
    destruct (ltb q s); cbn [bind].
    - reflexivity.
    - destruct (ltb s (mul (sub zero one) q)); cbn [bind]; reflexivity.
  Qed.

  Theorem g_admm_update_u_eq (u x z : list F) :
    length u = length x -> length x = length z ->
    g_admm_update_u F add sub u x z = Ret (u_update add sub u x z).
  Proof.
    intros Hux Hxz. unfold g_admm_update_u, u_update.
    rewrite (np_bin_vv_eq add u x Hux). cbn [bind].
    rewrite np_bin_vv_eq by (rewrite map2_length_eq by exact Hux; congruence).
    reflexivity.
  Qed.

  Theorem g_admm_update_z_eq (N W : nat) (rho : F) (lam : L) (lam_of : nat -> nat -> nat -> F)
          (cls : L -> Z -> Z -> Z -> Z -> Z -> res F) (u x : list F) :
    (1 <= N)%nat -> (1 <= W)%nat ->
    length x = (N * W * (N * W + 1) / 2)%nat -> length u = length x ->
    (forall b r c : nat, (b < W)%nat -> (r < N)%nat -> (c < N)%nat -> (b = 0%nat -> (r <= c)%nat) ->
       cls lam (Z.of_nat b) (Z.of_nat r) (Z.of_nat c) (Z.of_nat N) (Z.of_nat W) = Ret (lam_of b r c)) ->
    g_admm_update_z F zero add sub mul div ltb of_int L (np_sum zero add) cls
                    (mk_admm_args (Z.of_nat W) (Z.of_nat N) rho lam) u x
    = Ret (z_update zero one add sub mul div ltb of_nat rho lam_of N W u x).
  Proof.
    intros HN HW Hlen Hu Hcls.
    unfold g_admm_update_z, z_update.
    cbn [aa_window_size aa_num_data_series aa_rho aa_sparsity_weight].
    rewrite (np_bin_vv_eq add x u (eq_sym Hu)). cbn [bind]. cbv zeta.
    unfold np_full1, py_len.
    assert (E0 : (Z.of_nat (length x) <? 0)%Z = false) by (apply Z.ltb_ge; lia).
    rewrite E0, Nat2Z.id. cbn [bind].
    rewrite bind_ret_r.
    rewrite (nested_loops
               (fun b r c z =>
                  t3_ <- cls lam b r c (Z.of_nat N) (Z.of_nat W) ;;
                  t4_ <- g_locations_compressed b r c (Z.of_nat N) (Z.of_nat W) ;;
                  t5_ <- mapM (py_getitem (map2 add x u)) t4_ ;;
                  t6_ <- g_soft_threshold_prox F add sub mul div ltb of_int
                           (mul rho (np_sum zero add t5_)) t3_ (mul rho (of_int (Z.of_nat W - b))) ;;
                  z' <- py_set_indices z t4_ t6_ ;; Ret z') N W).
    apply (foldM_inv (fun z => length z = length x)).
    - apply repeat_length.
    - intros z [[b r] c] Hin Hz.
      apply TriIndexP.classes_In in Hin. destruct Hin as [Hb [Hr [Hc Hd]]].
      assert (Hrange : forall k, In k (locations_compressed b r c N W) -> (k < length x)%nat).
      { intros k Hk. rewrite Hlen. exact (TriIndexP.locations_compressed_in_range b r c N W k Hb Hr Hc Hd Hk). }
      rewrite (Hcls b r c Hb Hr Hc Hd). cbn [bind].
      rewrite (g_locations_compressed_eq b r c N W Hb Hr Hc Hd). cbn [bind].
      rewrite (mapM_getitem_nat (map2 add x u) (locations_compressed b r c N W) zero)
        by (rewrite map2_length_eq by (symmetry; exact Hu); exact Hrange).
      cbn [bind]. rewrite g_soft_threshold_eq. cbn [bind].
      rewrite py_set_indices_nat by (rewrite Hz; exact Hrange).
      cbn [bind].
      rewrite <- Nat2Z.inj_sub by lia. rewrite of_int_nat.
      split; [reflexivity|].
      rewrite set_all_len. exact Hz.
  Qed.
End E.

Print Assumptions g_soft_threshold_eq.
Print Assumptions g_admm_update_u_eq.
Print Assumptions g_admm_update_z_eq.


(* sanity on an integer carrier *)
Definition xs : list Z := [3;1;4;1;5;9;2;6;5;3]%Z.
Definition us : list Z := [2;7;1;8;2;8;1;8;2;8]%Z.
Eval vm_compute in g_admm_update_z Z 0%Z Z.add Z.sub Z.mul Z.div Z.ltb (fun z => z) unit (np_sum 0%Z Z.add)
   (fun _ b r c N W => Ret (b + 2*r + c)%Z) (mk_admm_args 2 2 3%Z tt) us xs.
Eval vm_compute in z_update 0%Z 1%Z Z.add Z.sub Z.mul Z.div Z.ltb Z.of_nat 3%Z (fun b r c => Z.of_nat (b + 2*r + c)) 2 2 us xs.

(* ---- check_convergence as translated = the model's tolerance test (the five norms are np.linalg.norm of the
   vectors the code forms; np.linalg.norm, math.sqrt and the literal 0.0001 are uninterpreted) ---- *)
Section C.
  Variable F : Type.
  Variables (add sub mul : F -> F -> F) (sqrt : F -> F) (ltb leb : F -> F -> bool).
  Variable of_nat : nat -> F.
  Variable of_int : Z -> F.
  Variable flit : string -> F.
  Variable np_norm : list F -> F.
  Hypothesis of_int_nat : forall n : nat, of_int (Z.of_nat n) = of_nat n.

  Theorem g_check_convergence_eq (abs_tol rel_tol rho : F) (verbose : bool) (u x z z_old : list F) :
    length x = length z -> length z = length z_old ->
    let nx := np_norm x in
    let nz := np_norm z in
    let nru := np_norm (map (mul rho) u) in
    let rp := np_norm (map2 sub x z) in
    let rd := np_norm (map (mul rho) (map2 sub z z_old)) in
    let tols := tolerances add mul sqrt ltb of_nat (length x) abs_tol rel_tol (flit "0.0001") nx nz nru in
    g_check_convergence F add sub mul ltb of_int leb flit sqrt np_norm
                        (mk_admm_tol_args abs_tol rel_tol rho verbose) u x z z_old
    = Ret (converged add mul sqrt ltb leb of_nat (length x) abs_tol rel_tol (flit "0.0001") nx nz nru rp rd,
           rp, fst tols, rd, snd tols).
  Proof.
    intros Hxz Hzz nx nz nru rp rd tols.
    unfold g_check_convergence.
    rewrite (np_bin_vv_eq sub x z Hxz). cbn [bind].
    rewrite (np_bin_vv_eq sub z z_old Hzz). cbn [bind].
    cbn [at_absolute_tolerance at_relative_tolerance at_rho at_verbose].
    unfold py_len. rewrite of_int_nat.
    destruct verbose; cbn [bind]; unfold converged, tols, tolerances, pmax; reflexivity.
  Qed.
End C.
Print Assumptions g_check_convergence_eq.

(* ---- x_update_prox as translated: the eigenvalue vector the code builds is the model's scalar map applied to every
   eigenvalue returned by eigh, and the result is compress(rho_scale * (q @ diag(...) @ q.T)).  eigh, the matrix products,
   np.diag and compress_matrix are uninterpreted (LAPACK / BLAS / modelled elsewhere) ---- *)
Section X.
  Variable F : Type.
  Variables (zero one two four : F) (add sub mul div : F -> F -> F) (sqrt : F -> F) (ltb : F -> F -> bool).
  Variable of_int : Z -> F.
  Variable flit : string -> F.
  Variable M : Type.
  Variable np_eigh : M -> list F * M.
  Variable np_matmul : M -> M -> M.
  Variable np_transpose : M -> M.
  Variable np_mat_sub : M -> M -> M.
  Variable np_mat_scale : F -> M -> M.
  Variable np_diag : list F -> M.
  Variable compress : M -> list F.
  Hypothesis of_int_0 : of_int 0%Z = zero.
  Hypothesis of_int_1 : of_int 1%Z = one.
  Hypothesis of_int_2 : of_int 2%Z = two.
  Hypothesis of_int_4 : of_int 4%Z = four.

  Lemma where_vv_map3 (c : list bool) (a b : list F) :
    length a = length c -> length b = length c ->
    where_vv c a b = map (fun t : bool * F * F => if fst (fst t) then snd (fst t) else snd t) (combine (combine c a) b).
  Proof.
    revert a b. induction c as [|ci c IH]; intros a b Ha Hb.
    - destruct a; destruct b; reflexivity.
    - destruct a as [|x a]; [discriminate|]. destruct b as [|y b]; [discriminate|].
      cbn [where_vv combine map fst snd]. f_equal. apply IH; [injection Ha as Ha; exact Ha | injection Hb as Hb; exact Hb].
  Qed.

  Lemma eigenvalue_vector (rho : F) (d : list F) :
    let det := map2 add (map (fun a => mul a a) d) (map (fun a => mul (mul four rho) a) (repeat one (length d))) in
    let root := map sqrt det in
    let safe := where_vv (map (fun a => ltb a zero) d) (map2 sub root d) (repeat (flit "1.0") (length d)) in
    where_vv (map (fun a => ltb a zero) d) (map (fun a => div (mul four rho) a) safe) (map2 add d root)
    = map (theta_num zero one add sub mul div sqrt ltb four rho) d.
  Proof.
    cbn zeta. induction d as [|x d IH]; [reflexivity|].
    cbn [length repeat map map2 where_vv]. unfold theta_num at 1.
    destruct (ltb x zero); f_equal; exact IH.
  Qed.

  Theorem g_x_update_prox_eq (S zmu : M) (rho : F) :
    let dq := np_eigh (np_mat_sub (np_mat_scale rho zmu) S) in
    g_x_update_prox F one add sub mul div ltb of_int flit M sqrt np_eigh np_matmul np_transpose np_mat_sub np_mat_scale np_diag compress S zmu rho
    = Ret (compress (np_mat_scale (rho_scale one mul div two rho)
                       (np_matmul (np_matmul (snd dq) (np_diag (map (theta_num zero one add sub mul div sqrt ltb four rho) (fst dq))))
                                  (np_transpose (snd dq))))).
  Proof.
    intros dq. unfold g_x_update_prox. fold dq.
    set (d := fst dq). set (q := snd dq).
    rewrite of_int_0, of_int_1, of_int_2, of_int_4.
    assert (L1 : length (map (fun a => mul a a) d) = length (map (fun a => mul (mul four rho) a) (repeat one (length d))))
      by (rewrite !map_length, repeat_length; reflexivity).
    rewrite (np_bin_vv_eq add _ _ L1). cbn [bind].
    set (det := map2 add (map (fun a => mul a a) d) (map (fun a => mul (mul four rho) a) (repeat one (length d)))).
    assert (Ldet : length det = length d).
    { unfold det. rewrite map2_length_eq by exact L1. rewrite map_length. reflexivity. }
    assert (L2 : length (map sqrt det) = length d) by (rewrite map_length; exact Ldet).
    rewrite (np_bin_vv_eq sub _ _ L2). cbn [bind].
    unfold np_where at 1. cbn [nd_expand]. rewrite !map_length.
    rewrite (map2_length_eq sub (map sqrt det) d L2), L2, Nat.eqb_refl. cbn [bind].
    rewrite (np_bin_vv_eq add d (map sqrt det) (eq_sym L2)). cbn [bind].
    unfold np_where. cbn [nd_expand]. rewrite !map_length.
    assert (Lsafe : length (where_vv (map (fun a => ltb a zero) d) (map2 sub (map sqrt det) d) (repeat (flit "1.0") (length d))) = length d).
    { rewrite where_vv_map3; [rewrite map_length, !combine_length, !map_length, repeat_length, map2_length_eq by exact L2; rewrite L2; lia
                             | rewrite map_length, map2_length_eq by exact L2; exact L2
                             | rewrite map_length, repeat_length; reflexivity]. }
    rewrite Lsafe, Nat.eqb_refl.
    rewrite (map2_length_eq add d (map sqrt det) (eq_sym L2)), Nat.eqb_refl. cbn [bind].
    unfold det. rewrite (eigenvalue_vector rho d). unfold rho_scale. reflexivity.
  Qed.
End X.
Print Assumptions g_x_update_prox_eq.
