(* Second tie, skeleton mode: fit_stacked_data AS A WHOLE (Gen/G_main_loop_full.v) is its translated PREFIX (Gen/G_main_loop.v: up to
   the first assignment to bayesian_ic, returning the final model state) followed by its translated SUFFIX (Gen/G_main_loop_suffix.v:
   the result assembly), for every log and whatever the oracles answer - so that the facts proved about the two parts
   (Proofs/GenEquivML.v, Proofs/GenEquivRS.v) are facts about the function, and the cut made by the translator is not trusted.
   Closed under the global context. *)
From Coq Require Import String ZArith List Bool Lia Arith.
From Ticc Require Import Gen.PyRt Gen.PySkel Gen.G_main_loop Gen.G_main_loop_suffix Gen.G_main_loop_full.
Import ListNotations.
Local Open Scope string_scope.

Section E.
  Variable V : Type.
  Variable vnone : V.
  Variable vint : Z -> V.
  Variable as_int : V -> option Z.
  Variable veq : V -> V -> bool.
  Variable getattr : V -> string -> V.
  Variable truthy : V -> bool.
  Variable is_none : V -> bool.
  Variables vtrue vfalse : V.
  Variable as_list : V -> list V.
  Variable vglobal : string -> V.
  Variable oracle : list (event V) -> string -> list V -> res V.

  Notation full := (g_fit_stacked_data_full V vnone vint as_int veq getattr oracle).
  Notation prefix := (g_fit_stacked_data V vnone as_int veq getattr oracle).
  Notation suffix := (g_fit_stacked_data_result V vint as_int getattr oracle).

  (* ---------------------------------------------------------------- the monad laws used, pointwise in the log *)

  Lemma mbind_assoc_pw : forall (A B C : Type) (m : M V A) (k : A -> M V B) (h : B -> M V C) (log : list (event V)),
    mbind (mbind m k) h log = mbind m (fun a => mbind (k a) h) log.
  Proof.
    intros A B C m k h log. unfold mbind.
    destruct (m log) as [[a|e] l]; reflexivity.
  Qed.

  Lemma mbind_ext_pw : forall (A B : Type) (m : M V A) (k1 k2 : A -> M V B) (log : list (event V)),
    (forall (a : A) (l : list (event V)), k1 a l = k2 a l) -> mbind m k1 log = mbind m k2 log.
  Proof.
    intros A B m k1 k2 log Hk. unfold mbind.
    destruct (m log) as [[a|e] l]; [apply Hk | reflexivity].
  Qed.

  (* one step of the common spine: the whole's next bind against (the prefix's next bind) >>= suffix *)
  Lemma spine_step : forall (A B C : Type) (m : M V A) (kf : A -> M V C) (kp : A -> M V B) (h : B -> M V C)
      (log : list (event V)),
    (forall (a : A) (l : list (event V)), kf a l = mbind (kp a) h l) ->
    mbind m kf log = mbind (mbind m kp) h log.
  Proof.
    intros A B C m kf kp h log Hk.
    rewrite mbind_assoc_pw. apply mbind_ext_pw. exact Hk.
  Qed.

  (* ---------------------------------------------------------------- the theorem *)

  Theorem full_is_prefix_then_suffix (user_args data : V) (log : list (event V)) :
    full user_args data log
    = mbind (prefix user_args data)
            (fun st => suffix st data (getattr (getattr data "shape") "[0]")) log.
  Proof.
    unfold g_fit_stacked_data_full, g_fit_stacked_data.
    apply spine_step. intros t1 l1.
    destruct (t1 >? 0)%Z; [| reflexivity].
    cbv zeta.
    apply spine_step. intros t2 l2.
    apply spine_step. intros t3 l3.
    apply spine_step. intros st4 l4.
    apply spine_step. intros t4 l5.
    apply spine_step. intros t5 l6.
    apply spine_step. intros [st prev] l7.
    apply spine_step. intros t14 l8.
    apply spine_step. intros t15 l9.
    reflexivity.
  Qed.

  (* ---------------------------------------------------------------- the two usable forms *)

  Corollary full_returns_split (user_args data : V) (log log' : list (event V)) (r : V) :
    full user_args data log = (Ret r, log') ->
    exists (st : V) (log1 : list (event V)),
      prefix user_args data log = (Ret st, log1)
      /\ suffix st data (getattr (getattr data "shape") "[0]") log1 = (Ret r, log').
  Proof.
    intros Hfull. rewrite full_is_prefix_then_suffix in Hfull. unfold mbind in Hfull.
    destruct (prefix user_args data log) as [[st|e] log1] eqn:Hpre.
    - exists st, log1. split; [reflexivity | exact Hfull].
    - discriminate Hfull.
  Qed.

  Corollary full_raises_split (user_args data : V) (log log' : list (event V)) (e : string) :
    full user_args data log = (Raise e, log') ->
    prefix user_args data log = (Raise e, log')
    \/ exists (st : V) (log1 : list (event V)),
         prefix user_args data log = (Ret st, log1)
         /\ suffix st data (getattr (getattr data "shape") "[0]") log1 = (Raise e, log').
  Proof.
    intros Hfull. rewrite full_is_prefix_then_suffix in Hfull. unfold mbind in Hfull.
    destruct (prefix user_args data log) as [[st|e1] log1] eqn:Hpre.
    - right. exists st, log1. split; [reflexivity | exact Hfull].
    - left. exact Hfull.
  Qed.

End E.

Check full_is_prefix_then_suffix.
Check full_returns_split.
Check full_raises_split.
Print Assumptions full_is_prefix_then_suffix.
Print Assumptions full_returns_split.
Print Assumptions full_raises_split.
