(* Run-time library of the Python -> Gallina translator (tools/py2coq.py).

   The translator turns the pure integer / list code of fast_ticc (unique_values.py,
   data_preparation.py) into Gallina text on every run; the generated definitions use only
   what is defined here.  Each definition below renders one Python / NumPy primitive; that
   rendering is TRUSTED (it is the translator's semantic table) and is validated by the
   correspondence harness, which runs the hand-written model - proved equal to the generated
   code in Proofs/GenEquiv*.v - against the implementation.

     int                 Z (unbounded, like Python's)
     float from int/int  Q (exact; the code only truncates such values or subtracts
                            integers from them, all far below 2^53)
     list / tuple        list / prod
     exceptions          the error monad [res]; the string is the exception class
     np.ndarray (2-D)    [arr2 F]: shape and rows, element type abstract (the code only copies)
     np.ndarray (1-D)    list F

   No proofs in this file except the small monad / range facts at the end. *)
From Coq Require Import String.
From Coq Require Import ZArith QArith List Bool Lia.
Import ListNotations.
Local Open Scope string_scope.
Local Open Scope Z_scope.

Inductive res (A : Type) : Type :=
| Ret (a : A)
| Raise (exc : string).
Arguments Ret {A} a.
Arguments Raise {A} exc.

Definition bind {A B : Type} (m : res A) (f : A -> res B) : res B :=
  match m with
  | Ret a => f a
  | Raise e => Raise e
  end.

Notation "x <- m ;; k" := (bind m (fun x => k))
  (at level 61, m at next level, right associativity).
Notation "' p <- m ;; k" := (bind m (fun p => k))
  (at level 61, p pattern, m at next level, right associativity).

Fixpoint foldM {S X : Type} (f : S -> X -> res S) (xs : list X) (s : S) : res S :=
  match xs with
  | [] => Ret s
  | x :: r => bind (f s x) (fun s' => foldM f r s')
  end.

Fixpoint mapM {X Y : Type} (f : X -> res Y) (xs : list X) : res (list Y) :=
  match xs with
  | [] => Ret []
  | x :: r => bind (f x) (fun y => bind (mapM f r) (fun ys => Ret (y :: ys)))
  end.

(* range(n): 0, 1, ..., n-1; empty when n <= 0 *)
Definition zrange (n : Z) : list Z := map Z.of_nat (seq 0 (Z.to_nat n)).

(* len *)
Definition py_len {A : Type} (l : list A) : Z := Z.of_nat (length l).

(* int(x) for a float x: truncation toward zero *)
Definition py_int_of_float (q : Q) : Z := Z.quot (Qnum q) (Z.pos (Qden q)).

(* a / b with b a non-zero literal *)
Definition py_truediv (a : Q) (b : Q) : Q := Qdiv a b.

(* sum(l) *)
Definition py_sum (l : list Z) : Z := fold_left Z.add l 0.

(* list(itertools.accumulate(l)): running sums *)
Fixpoint accumulate_from (acc : Z) (l : list Z) : list Z :=
  match l with
  | [] => []
  | x :: r => (acc + x) :: accumulate_from (acc + x) r
  end.
Definition py_accumulate (l : list Z) : list Z := accumulate_from 0 l.

(* [x] * n *)
Definition py_list_repeat {A : Type} (x : A) (n : Z) : list A := repeat x (Z.to_nat n).

(* l[i] with Python's negative indices and IndexError *)
Definition py_getitem {A : Type} (l : list A) (i : Z) : res A :=
  let n := py_len l in
  let j := if i <? 0 then i + n else i in
  if (j <? 0) || (n <=? j) then Raise "IndexError"
  else match nth_error l (Z.to_nat j) with
       | Some x => Ret x
       | None => Raise "IndexError"
       end.

(* l[a:b] with Python's clamping *)
Definition slice_norm (i n : Z) : Z := if i <? 0 then Z.max 0 (i + n) else Z.min i n.
Definition py_slice {A : Type} (l : list A) (a b : Z) : list A :=
  let n := py_len l in
  let a' := slice_norm a n in
  let b' := slice_norm b n in
  firstn (Z.to_nat (b' - a')) (skipn (Z.to_nat a') l).

(* l.pop() used as a statement: the list without its last element; IndexError when empty *)
Definition py_pop_last {A : Type} (l : list A) : res (list A) :=
  match l with
  | [] => Raise "IndexError"
  | _ => Ret (removelast l)
  end.

(* replace position k (a nat, in range) *)
Fixpoint set_nth {A : Type} (k : nat) (v : A) (l : list A) : list A :=
  match l, k with
  | [], _ => []
  | _ :: r, O => v :: r
  | x :: r, S k' => x :: set_nth k' v r
  end.

(* a[[i1, i2, ...]] = v  on a 1-D array: NumPy's fancy-index store, negative indices wrap *)
Definition py_set_index {A : Type} (l : list A) (i : Z) (v : A) : res (list A) :=
  let n := py_len l in
  let j := if i <? 0 then i + n else i in
  if (j <? 0) || (n <=? j) then Raise "IndexError" else Ret (set_nth (Z.to_nat j) v l).
Definition py_set_indices {A : Type} (l : list A) (idx : list Z) (v : A) : res (list A) :=
  foldM (fun acc i => py_set_index acc i v) idx l.

(* np.ones(shape=(n,)) / np.zeros(shape=(n,)) *)
Definition np_full1 {A : Type} (v : A) (n : Z) : res (list A) :=
  if n <? 0 then Raise "ValueError" else Ret (repeat v (Z.to_nat n)).

(* ---- 2-D arrays ---- *)
Record arr2 (F : Type) : Type := mk_arr2 { a_rows : Z; a_cols : Z; a_cells : list (list F) }.
Arguments mk_arr2 {F} _ _ _.
Arguments a_rows {F} _.
Arguments a_cols {F} _.
Arguments a_cells {F} _.

(* np.zeros([r, c]) *)
Definition np_zeros2 {F : Type} (zero : F) (r c : Z) : res (arr2 F) :=
  if (r <? 0) || (c <? 0) then Raise "ValueError"
  else Ret (mk_arr2 r c (repeat (repeat zero (Z.to_nat c)) (Z.to_nat r))).

(* data[i, :] *)
Definition np_row {F : Type} (a : arr2 F) (i : Z) : res (list F) := py_getitem (a_cells a) i.

(* a[i, s:e] = row   (row a 1-D array: equal length, or length 1 which NumPy broadcasts) *)
Definition splice {A : Type} (l : list A) (s : nat) (new : list A) : list A :=
  firstn s l ++ new ++ skipn (s + length new) l.
Definition np_set_row_slice {F : Type} (a : arr2 F) (i s e : Z) (row : list F) : res (arr2 F) :=
  old <- py_getitem (a_cells a) i ;;
  let n := py_len old in
  let s' := slice_norm s n in
  let e' := slice_norm e n in
  let w := Z.to_nat (e' - s') in
  let j := Z.to_nat (if i <? 0 then i + a_rows a else i) in
  if Nat.eqb (length row) w
  then Ret (mk_arr2 (a_rows a) (a_cols a) (set_nth j (splice old (Z.to_nat s') row) (a_cells a)))
  else match row with
       | [x] => Ret (mk_arr2 (a_rows a) (a_cols a) (set_nth j (splice old (Z.to_nat s') (repeat x w)) (a_cells a)))
       | _ => Raise "ValueError"
       end.

(* np.vstack(list of 2-D arrays): at least one array, equal column counts *)
Definition np_vstack {F : Type} (l : list (arr2 F)) : res (arr2 F) :=
  match l with
  | [] => Raise "ValueError"
  | a0 :: _ =>
    if forallb (fun a => a_cols a =? a_cols a0) l
    then Ret (mk_arr2 (py_sum (map a_rows l)) (a_cols a0) (concat (map a_cells l)))
    else Raise "ValueError"
  end.

(* ---- floating-point kernels (carrier and operations abstract) ---- *)
(* range(a, b) and range(a, b, -1) *)
Definition zrange2 (a b : Z) : list Z := map (fun k => a + Z.of_nat k) (seq 0 (Z.to_nat (b - a))).
Definition zrange_down (a b : Z) : list Z := map (fun k => a - Z.of_nat k) (seq 0 (Z.to_nat (a - b))).

(* a parameter that is either a Python / NumPy scalar or a 1-D array *)
Inductive nd (F : Type) : Type :=
| NdScalar (x : F)
| NdVec (l : list F).
Arguments NdScalar {F} x.
Arguments NdVec {F} l.

Fixpoint py_map2 {A B C : Type} (f : A -> B -> C) (l1 : list A) (l2 : list B) : list C :=
  match l1, l2 with
  | x :: r1, y :: r2 => f x y :: py_map2 f r1 r2
  | _, _ => []
  end.

(* a (op) b on 1-D arrays: equal lengths, or NumPy's broadcast of a length-1 operand *)
Definition np_bin_vv {F : Type} (f : F -> F -> F) (a b : list F) : res (list F) :=
  if Nat.eqb (length a) (length b) then Ret (py_map2 f a b)
  else match a, b with
       | _, [y] => Ret (map (fun x => f x y) a)
       | [x], _ => Ret (map (fun y => f x y) b)
       | _, _ => Raise "ValueError"
       end.

(* 1-D array (op) scalar-or-array parameter *)
Definition np_bin_vnd {F : Type} (f : F -> F -> F) (a : list F) (b : nd F) : res (list F) :=
  match b with
  | NdScalar y => Ret (map (fun x => f x y) a)
  | NdVec l => np_bin_vv f a l
  end.

(* np.argmin on a 1-D array without NaN: index of the first minimum; ValueError when empty.
   (With a NaN present NumPy returns the index of the first NaN; the properties quantify over
   finite costs, and the bit-exact correspondence never feeds NaN to this rendering.) *)
Fixpoint argmin_from {F : Type} (ltb : F -> F -> bool) (best : F) (bi i : nat) (l : list F) : nat :=
  match l with
  | [] => bi
  | x :: r => if ltb x best then argmin_from ltb x i (S i) r else argmin_from ltb best bi (S i) r
  end.
Definition np_argmin {F : Type} (ltb : F -> F -> bool) (l : list F) : res Z :=
  match l with
  | [] => Raise "ValueError"
  | x :: r => Ret (Z.of_nat (argmin_from ltb x 0 1 r))
  end.

(* np.where(c, a, b) with c a 1-D boolean array and a, b scalars or 1-D arrays of c's length
   (NumPy would also broadcast a length-1 array; that case is rendered as an error: stricter) *)
Fixpoint where_vv {F : Type} (c : list bool) (a b : list F) : list F :=
  match c, a, b with
  | ci :: c', x :: a', y :: b' => (if ci then x else y) :: where_vv c' a' b'
  | _, _, _ => []
  end.
Definition nd_expand {F : Type} (x : nd F) (n : nat) : option (list F) :=
  match x with
  | NdScalar s => Some (repeat s n)
  | NdVec l => if Nat.eqb (length l) n then Some l else None
  end.
Definition np_where {F : Type} (c : list bool) (a b : nd F) : res (list F) :=
  match nd_expand a (length c), nd_expand b (length c) with
  | Some la, Some lb => Ret (where_vv c la lb)
  | _, _ => Raise "ValueError"
  end.

(* a[i, j] and a[i, j] = v on a 2-D array (negative indices wrap, IndexError outside) *)
Definition np_get2 {F : Type} (a : arr2 F) (i j : Z) : res F :=
  row <- py_getitem (a_cells a) i ;; py_getitem row j.
Definition np_set2 {F : Type} (a : arr2 F) (i j : Z) (v : F) : res (arr2 F) :=
  row <- py_getitem (a_cells a) i ;;
  row' <- py_set_index row j v ;;
  let k := Z.to_nat (if i <? 0 then i + py_len (a_cells a) else i) in
  Ret (mk_arr2 (a_rows a) (a_cols a) (set_nth k row' (a_cells a))).

(* value stored into a uint16 array: NumPy's cast of an integer index wraps modulo 2^16 *)
Definition wrap_u16 (z : Z) : Z := z mod 65536.

(* the fields of containers.arguments.ADMMArguments that the translated solver code reads;
   L is the sparsity weight as passed by the caller (scalar or matrix; opaque here) *)
Record admm_args (F L : Type) : Type := mk_admm_args {
  aa_window_size : Z; aa_num_data_series : Z; aa_rho : F; aa_sparsity_weight : L }.
Arguments mk_admm_args {F L} _ _ _ _.
Arguments aa_window_size {F L} _.
Arguments aa_num_data_series {F L} _.
Arguments aa_rho {F L} _.
Arguments aa_sparsity_weight {F L} _.

(* a / b on two ints with b not a literal: exact quotient, ZeroDivisionError when b = 0 *)
Definition py_truediv_int (a b : Z) : res Q :=
  if b =? 0 then Raise "ZeroDivisionError" else Ret (Qdiv (inject_Z a) (inject_Z b)).

(* ---- dictionaries with integer keys (insertion order is not observable in the translated code) ---- *)
Definition py_dict_get {V : Type} (d : list (Z * V)) (k : Z) : res V :=
  match find (fun kv => fst kv =? k) d with
  | Some kv => Ret (snd kv)
  | None => Raise "KeyError"
  end.
Definition py_dict_set {V : Type} (d : list (Z * V)) (k : Z) (v : V) : list (Z * V) :=
  (k, v) :: filter (fun kv => negb (fst kv =? k)) d.

(* the fields of ModelState / ClusterParameters that cluster_metrics.bayesian_information_criterion reads;
   M is the type of 2-D float arrays (opaque) *)
Record bic_cluster (M : Type) : Type := mk_bic_cluster { bc_train_inverse : M; bc_empirical_covariance : M }.
Arguments mk_bic_cluster {M} _ _.
Arguments bc_train_inverse {M} _.
Arguments bc_empirical_covariance {M} _.
Record bic_args : Type := mk_bic_args { ba_num_clusters : Z }.
Record bic_model (M : Type) : Type := mk_bic_model {
  bm_arguments : bic_args; bm_clusters : list (bic_cluster M); bm_point_labels : list Z }.
Arguments mk_bic_model {M} _ _ _.
Arguments bm_arguments {M} _.
Arguments bm_clusters {M} _.
Arguments bm_point_labels {M} _.

(* the fields of ADMMArguments that check_convergence reads *)
Record admm_tol_args (F : Type) : Type := mk_admm_tol_args {
  at_absolute_tolerance : F; at_relative_tolerance : F; at_rho : F; at_verbose : bool }.
Arguments mk_admm_tol_args {F} _ _ _ _.
Arguments at_absolute_tolerance {F} _.
Arguments at_relative_tolerance {F} _.
Arguments at_rho {F} _.
Arguments at_verbose {F} _.

(* enumerate(l) *)
Definition py_enumerate {A : Type} (l : list A) : list (Z * A) := combine (zrange (py_len l)) l.

(* l[i].append(v) on a list of lists (negative i wraps, IndexError outside) *)
Definition py_append_at {A : Type} (l : list (list A)) (i : Z) (v : A) : res (list (list A)) :=
  inner <- py_getitem l i ;;
  let k := Z.to_nat (if i <? 0 then i + py_len l else i) in
  Ret (set_nth k (inner ++ [v])%list l).

(* the fields of ModelState that main_loop._compute_log_likelihood_by_cluster reads *)
Record ll_args : Type := mk_ll_args { la_window_size : Z; la_num_clusters : Z }.
Record ll_model (CL : Type) : Type := mk_ll_model {
  lm_arguments : ll_args; lm_clusters : list CL; lm_point_labels : list Z }.
Arguments mk_ll_model {CL} _ _ _.
Arguments lm_arguments {CL} _.
Arguments lm_clusters {CL} _.
Arguments lm_point_labels {CL} _.

(* l.pop(0) used as a statement *)
Definition py_pop_first {A : Type} (l : list A) : res (list A) :=
  match l with
  | [] => Raise "IndexError"
  | _ :: r => Ret r
  end.

(* while cond: body  - recursion on explicit fuel.  The body answers [inl s'] (go on with state s') or [inr r] (a `return r`
   inside the loop); the loop answers [inl s] when the condition became false in state s.  Out of fuel is an error value. *)
Fixpoint py_while {S R : Type} (fuel : nat) (cond : S -> res bool) (body : S -> res (S + R)) (s : S) : res (S + R) :=
  match fuel with
  | O => Raise "OutOfFuel"
  | Datatypes.S f =>
    c <- cond s ;;
    if c then
      r <- body s ;;
      match r with
      | inl s' => py_while f cond body s'
      | inr v => Ret (inr v)
      end
    else Ret (inl s)
  end.

(* the fields of ModelState / ClusterParameters that the repopulation helpers read *)
Record rp_args : Type := mk_rp_args { ra_min_cluster_size : Z }.
Record rp_cluster : Type := mk_rp_cluster { rc_size : Z; rc_member_points : list Z }.
Record rp_model : Type := mk_rp_model { rm_arguments : rp_args; rm_clusters : list rp_cluster; rm_point_labels : list Z }.

(* elementwise operations on 2-D arrays and boolean masks *)
Definition arr2_map {A B : Type} (f : A -> B) (a : arr2 A) : arr2 B :=
  mk_arr2 (a_rows a) (a_cols a) (map (map f) (a_cells a)).
Definition same_dims {A B : Type} (a : arr2 A) (b : arr2 B) : bool :=
  (a_rows a =? a_rows b) && (a_cols a =? a_cols b).
(* m1 & m2 *)
Definition np_mask_and (m1 m2 : arr2 bool) : res (arr2 bool) :=
  if same_dims m1 m2 then Ret (mk_arr2 (a_rows m1) (a_cols m1) (py_map2 (py_map2 andb) (a_cells m1) (a_cells m2)))
  else Raise "ValueError".
(* a[mask] = v  (v a scalar) *)
Definition np_mask_set {F : Type} (a : arr2 F) (m : arr2 bool) (v : F) : res (arr2 F) :=
  if same_dims a m then
    Ret (mk_arr2 (a_rows a) (a_cols a) (py_map2 (py_map2 (fun x (b : bool) => if b then v else x)) (a_cells a) (a_cells m)))
  else Raise "IndexError".

(* the fields of ModelState that graphical_lasso._reconstruct_optimized_matrix reads *)
Record gl_args (F : Type) : Type := mk_gl_args { ga_min_meaningful_covariance : F }.
Arguments mk_gl_args {F} _.
Arguments ga_min_meaningful_covariance {F} _.
Record gl_model (F : Type) : Type := mk_gl_model { gm_arguments : gl_args F }.
Arguments mk_gl_model {F} _.
Arguments gm_arguments {F} _.

(* a[rows, :] with a list of row indices (negative indices wrap, IndexError outside): the selected rows in list order *)
Definition np_take_rows {F : Type} (a : arr2 F) (rows : list Z) : res (arr2 F) :=
  sel <- mapM (py_getitem (a_cells a)) rows ;;
  Ret (mk_arr2 (py_len rows) (a_cols a) sel).

(* the fields of ClusterParameters that update_cluster_member_data_statistics reads and writes; field stores on a local
   copy are functional updates *)
Record st_cluster (F M : Type) : Type := mk_st_cluster {
  sc_size : Z; sc_member_points : list Z; sc_empirical_covariance : M; sc_stacked_data_mean : list F }.
Arguments mk_st_cluster {F M} _ _ _ _.
Arguments sc_size {F M} _.
Arguments sc_member_points {F M} _.
Arguments sc_empirical_covariance {F M} _.
Arguments sc_stacked_data_mean {F M} _.
Definition set_sc_empirical_covariance {F M : Type} (c : st_cluster F M) (v : M) : st_cluster F M :=
  mk_st_cluster (sc_size c) (sc_member_points c) v (sc_stacked_data_mean c).
Definition set_sc_stacked_data_mean {F M : Type} (c : st_cluster F M) (v : list F) : st_cluster F M :=
  mk_st_cluster (sc_size c) (sc_member_points c) (sc_empirical_covariance c) v.

(* ---- 2-D fancy indexing and small matrix helpers (matrix_compression.py) ---- *)
(* np.triu_indices(n): row and column indices of the upper triangle incl. the diagonal, row-major *)
Definition np_triu_indices (n : Z) : list Z * list Z :=
  let k := Z.to_nat n in
  (flat_map (fun r => repeat (Z.of_nat r) (k - r)) (seq 0 k),
   flat_map (fun r => map Z.of_nat (seq r (k - r))) (seq 0 k)).
(* a[(rows, cols)] *)
Definition np_take2 {F : Type} (a : arr2 F) (rows cols : list Z) : res (list F) :=
  if Nat.eqb (length rows) (length cols) then mapM (fun rc => np_get2 a (fst rc) (snd rc)) (combine rows cols)
  else Raise "IndexError".
(* a[(rows, cols)] = values : one value per index pair (a length-1 values array would be broadcast by NumPy: rendered as an error) *)
Definition np_put2 {F : Type} (a : arr2 F) (rows cols : list Z) (vals : list F) : res (arr2 F) :=
  if Nat.eqb (length rows) (length cols) && Nat.eqb (length rows) (length vals) then
    foldM (fun acc rcv => np_set2 acc (fst (fst rcv)) (snd (fst rcv)) (snd rcv)) (combine (combine rows cols) vals) a
  else Raise "ValueError".
(* a.T, a.diagonal(), np.diag(v) for a 1-D v, elementwise a (op) b of equal shapes *)
Definition arr2_transpose {F : Type} (d : F) (a : arr2 F) : arr2 F :=
  mk_arr2 (a_cols a) (a_rows a)
          (map (fun j => map (fun i => nth j (nth i (a_cells a) []) d) (seq 0 (Z.to_nat (a_rows a)))) (seq 0 (Z.to_nat (a_cols a)))).
Definition arr2_diagonal {F : Type} (d : F) (a : arr2 F) : list F :=
  map (fun i => nth i (nth i (a_cells a) []) d) (seq 0 (Z.to_nat (Z.min (a_rows a) (a_cols a)))).
Definition arr2_of_diag {F : Type} (zero : F) (v : list F) : arr2 F :=
  let n := length v in
  mk_arr2 (Z.of_nat n) (Z.of_nat n)
          (map (fun i => map (fun j => if Nat.eqb i j then nth i v zero else zero) (seq 0 n)) (seq 0 n)).
Definition arr2_bin {F : Type} (f : F -> F -> F) (a b : arr2 F) : res (arr2 F) :=
  if same_dims a b then Ret (mk_arr2 (a_rows a) (a_cols a) (py_map2 (py_map2 f) (a_cells a) (a_cells b)))
  else Raise "ValueError".

(* the sparsity weight as the caller passed it: a real scalar (Python int / float / NumPy scalar), a 2-D array, or anything else *)
Inductive lamv (F : Type) : Type :=
| LamScalar (x : F)
| LamArray (a : arr2 F)
| LamOther.
Arguments LamScalar {F} x.
Arguments LamArray {F} a.
Arguments LamOther {F}.
(* isinstance(x, numbers.Real) / isinstance(x, np.ndarray) *)
Definition lam_is_real {F : Type} (x : lamv F) : bool := match x with LamScalar _ => true | _ => false end.
Definition lam_is_array {F : Type} (x : lamv F) : bool := match x with LamArray _ => true | _ => false end.
(* float(x) *)
Definition lam_float {F : Type} (x : lamv F) : res F := match x with LamScalar v => Ret v | _ => Raise "TypeError" end.
(* x[rows, cols] *)
Definition lam_take2 {F : Type} (x : lamv F) (rows cols : list Z) : res (list F) :=
  match x with LamArray a => np_take2 a rows cols | _ => Raise "TypeError" end.

(* the fields of ModelState / ClusterParameters that cluster_metrics.calinski_harabasz_index reads *)
Record ch_cluster (F : Type) : Type := mk_ch_cluster { cc_size : Z; cc_member_points : list Z; cc_stacked_data_mean : list F }.
Arguments mk_ch_cluster {F} _ _ _.
Arguments cc_size {F} _.
Arguments cc_member_points {F} _.
Arguments cc_stacked_data_mean {F} _.
Record ch_model (F : Type) : Type := mk_ch_model { cm_clusters : list (ch_cluster F) }.
Arguments mk_ch_model {F} _.
Arguments cm_clusters {F} _.

(* ---- object state of containers/model_state.py (the fields the translated methods touch); field stores are functional ---- *)
(* sorted(l) on a list of ints: insertion sort (stable; the order of equal ints is not observable) *)
Fixpoint py_insert (x : Z) (l : list Z) : list Z :=
  match l with
  | [] => [x]
  | y :: r => if x <=? y then x :: y :: r else y :: py_insert x r
  end.
Definition py_sorted (l : list Z) : list Z := fold_right py_insert [] l.
(* l1 == l2 on lists of ints *)
Fixpoint py_list_eqb (a b : list Z) : bool :=
  match a, b with
  | [], [] => true
  | x :: a', y :: b' => (x =? y) && py_list_eqb a' b'
  | _, _ => false
  end.
(* collections.defaultdict(list) with integer keys *)
Definition py_ddict_get {V : Type} (d : list (Z * list V)) (k : Z) : list V :=
  match find (fun kv => fst kv =? k) d with Some kv => snd kv | None => [] end.
Definition py_ddict_append {V : Type} (d : list (Z * list V)) (k : Z) (v : V) : list (Z * list V) :=
  (k, (py_ddict_get d k ++ [v])%list) :: filter (fun kv => negb (fst kv =? k)) d.

Record ms_cluster : Type := mk_ms_cluster { mc__member_points : list Z }.
Definition set_mc__member_points (c : ms_cluster) (v : list Z) : ms_cluster := mk_ms_cluster v.
Record ms_args : Type := mk_ms_args { ma_num_clusters : Z }.
Record ms_state : Type := mk_ms_state { ms__point_labels : list Z; ms_clusters : list ms_cluster; ms_arguments : ms_args }.
Definition set_ms__point_labels (s : ms_state) (v : list Z) : ms_state := mk_ms_state v (ms_clusters s) (ms_arguments s).
Definition set_ms_clusters (s : ms_state) (v : list ms_cluster) : ms_state := mk_ms_state (ms__point_labels s) v (ms_arguments s).

(* ---- facts used by every equivalence proof ---- *)
Lemma bind_ret {A B : Type} (a : A) (f : A -> res B) : bind (Ret a) f = f a.
Proof. reflexivity. Qed.

Lemma zrange_of_nat (n : nat) : zrange (Z.of_nat n) = map Z.of_nat (seq 0 n).
Proof. unfold zrange. now rewrite Nat2Z.id. Qed.

Lemma zrange_nonpos (n : Z) : n <= 0 -> zrange n = [].
Proof. intros H. unfold zrange. destruct n; try reflexivity. lia. Qed.

Lemma py_len_app {A : Type} (l1 l2 : list A) : py_len (l1 ++ l2) = py_len l1 + py_len l2.
Proof. unfold py_len. rewrite app_length. lia. Qed.

Lemma foldM_app {S X : Type} (f : S -> X -> res S) (xs ys : list X) (s : S) :
  foldM f (xs ++ ys) s = bind (foldM f xs s) (foldM f ys).
Proof.
  revert s. induction xs as [|x xs IH]; intros s; cbn [app foldM].
  - reflexivity.
  - destruct (f s x) as [s'|e]; cbn [bind]; [apply IH | reflexivity].
Qed.

(* a loop whose body never raises is a fold_left *)
Lemma foldM_pure {S X : Type} (f : S -> X -> res S) (g : S -> X -> S) (xs : list X) (s : S) :
  (forall s x, In x xs -> f s x = Ret (g s x)) -> foldM f xs s = Ret (fold_left g xs s).
Proof.
  revert s. induction xs as [|x xs IH]; intros s H; cbn [foldM fold_left].
  - reflexivity.
  - rewrite H by (left; reflexivity). cbn [bind]. apply IH. intros s0 x0 Hin. apply H. right. exact Hin.
Qed.

Lemma mapM_pure {X Y : Type} (f : X -> res Y) (g : X -> Y) (xs : list X) :
  (forall x, In x xs -> f x = Ret (g x)) -> mapM f xs = Ret (map g xs).
Proof.
  induction xs as [|x xs IH]; intros H; cbn [mapM map].
  - reflexivity.
  - rewrite H by (left; reflexivity). cbn [bind]. rewrite IH by (intros x0 Hin; apply H; right; exact Hin).
    reflexivity.
Qed.
