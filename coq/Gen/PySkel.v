(* Run-time library of the SKELETON mode of vcheck/py2coq.py: the control flow of an object-heavy
   function (main_loop.fit_stacked_data) with every call of another function left uninterpreted.

     V                  the universe of Python values (opaque)
     getattr x "a"      the pure read  x.a   (and  x[0]  as  getattr x "[0]")
     veq a b            Python's  a == b
     as_int / vint      conversion between V and integers (loop bounds, comparisons with literals)
     oracle             what a callee returns or raises; it may depend on the whole history of calls
     M A                state (the log of calls made so far) + exception monad

   A call is first recorded in the log and then answered by the oracle; so the log is the sequence of
   calls IN THE ORDER THE CODE MAKES THEM, whichever of them raises.  Statements of the source that are
   inert for the properties are dropped by the translator and are its trusted white list:
   _verif.emit(...) (the guarded hooks) and LOGGER.<level>(...).
   Attribute assignment  x.a = e  is rendered as the call "setattr:a" [x; e] returning the updated x
   (sound here because the object is referenced through one variable only).                        *)
From Coq Require Import String.
From Coq Require Import ZArith List Bool.
From Ticc Require Import Gen.PyRt.
Import ListNotations.
Local Open Scope string_scope.
Local Open Scope Z_scope.

Section Skel.
  Variable V : Type.
  Variable vnone : V.
  Variable vint : Z -> V.
  Variable as_int : V -> option Z.
  Variable veq : V -> V -> bool.
  Variable getattr : V -> string -> V.

  Record event : Type := Ev { ev_fn : string; ev_args : list V }.
  Variable oracle : list event -> string -> list V -> res V.

  Definition M (A : Type) : Type := list event -> res A * list event.

  Definition mret {A} (a : A) : M A := fun log => (Ret a, log).
  Definition mraise {A} (e : string) : M A := fun log => (Raise e, log).
  Definition mbind {A B} (m : M A) (f : A -> M B) : M B :=
    fun log => match m log with
               | (Ret a, log') => f a log'
               | (Raise e, log') => (Raise e, log')
               end.
  (* record the call, then ask the oracle (which sees the history before this call) *)
  Definition call (fn : string) (args : list V) : M V :=
    fun log => (oracle log fn args, (log ++ [Ev fn args])%list).
  (* int(x) where Python needs an integer (range bound, comparison with a literal) *)
  Definition need_int (v : V) : M Z :=
    match as_int v with Some z => mret z | None => mraise "TypeError" end.
  (* try: body  except BaseException: handler; raise *)
  Definition try_reraise {A} (body : M A) (handler : M unit) : M A :=
    fun log => match body log with
               | (Ret a, log') => (Ret a, log')
               | (Raise e, log') =>
                 match handler log' with
                 | (Ret _, log'') => (Raise e, log'')
                 | (Raise e', log'') => (Raise e', log'')
                 end
               end.
  (* try: body  except X as e: raise Y(...) from e  - an exception of class X raised in the body is replaced by Y *)
  Definition try_map {A} (body : M A) (exc new_exc : string) : M A :=
    fun log => match body log with
               | (Raise e, log') => if String.eqb e exc then (Raise new_exc, log') else (Raise e, log')
               | r => r
               end.
  (* for i in xs: body ; the body returns the new state and whether it executed [break] *)
  Fixpoint for_break {S : Type} (body : S -> Z -> M (S * bool)) (xs : list Z) (s : S) : M S :=
    match xs with
    | [] => mret s
    | x :: r => mbind (body s x) (fun sb => if snd sb then mret (fst sb) else for_break body r (fst sb))
    end.
  (* for x in xs: body  (no break) *)
  Fixpoint for_each {S : Type} (body : S -> V -> M S) (xs : list V) (s : S) : M S :=
    match xs with
    | [] => mret s
    | x :: r => mbind (body s x) (fun s' => for_each body r s')
    end.
End Skel.

Arguments Ev {V} _ _.
Arguments ev_fn {V} _.
Arguments ev_args {V} _.
Arguments mret {V A} _ _.
Arguments mraise {V A} _ _.
Arguments mbind {V A B} _ _ _.
Arguments call {V} _ _ _ _.
Arguments need_int {V} _ _.
Arguments try_reraise {V A} _ _ _.
Arguments try_map {V A} _ _ _ _.
Arguments for_break {V S} _ _ _.
Arguments for_each {V S} _ _ _.

Notation "x <<- m ;; k" := (mbind m (fun x => k))
  (at level 61, m at next level, right associativity).
Notation "' p <<- m ;; k" := (mbind m (fun p => k))
  (at level 61, p pattern, m at next level, right associativity).
