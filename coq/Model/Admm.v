(* Model of fast_ticc/admm/solver.py (Z / U updates, soft threshold, lambda sum,
   convergence test, the ADMM loop with the X-update as an oracle, the scalar
   eigenvalue map of x_update_prox) and of graphical_lasso._zero_small_elements.
   Generic in the carrier; no proofs in this file. *)
From Coq Require Import List Arith Bool.
Import ListNotations.
From Ticc Require Import Model.Viterbi Model.TriIndex.

Section A.
  Context {A : Type}.
  Variables (zero one : A) (add sub mul div : A -> A -> A) (sqrt : A -> A) (ltb leb : A -> A -> bool).
  Variable of_nat : nat -> A.        (* int -> float conversion (exact for the sizes involved) *)

  (* Python max(x, 0) / min(x, 0):  max(a, b) is b only if b > a *)
  Definition pmax0 (x : A) : A := if ltb x zero then zero else x.
  Definition pmin0 (x : A) : A := if ltb zero x then zero else x.
  Definition pmax (a b : A) : A := if ltb a b then b else a.

  (* soft_threshold_prox(scaled_point_sum, lambda_sum, rho_times_r) *)
  Definition soft_threshold (s q rr : A) : A :=
    if ltb q s then pmax0 (div (sub s q) rr)
    else if ltb s (mul (sub zero one) q) then pmin0 (div (add s q) rr)
    else zero.

  (* np.sum over a short contiguous array: n < 8 sequential from 0.0; otherwise eight
     accumulators over full blocks of 8, pairwise combination, then the remainder *)
  Definition seq_sum (acc : A) (l : list A) : A := fold_left add l acc.
  Fixpoint blocks8 (fuel : nat) (r : list A) (l : list A) : list A * list A :=
    match fuel with
    | 0 => (r, l)
    | S f => if Nat.leb 8 (length l) then blocks8 f (map2 add r (firstn 8 l)) (skipn 8 l) else (r, l)
    end.
  Definition np_sum (l : list A) : A :=
    if Nat.ltb (length l) 8 then seq_sum zero l
    else
      let '(r, rest) := blocks8 (length l) (firstn 8 l) (skipn 8 l) in
      let g := fun i => nth i r zero in
      let res := add (add (add (g 0) (g 1)) (add (g 2) (g 3))) (add (add (g 4) (g 5)) (add (g 6) (g 7))) in
      seq_sum res rest.

  (* compute_lambda_sum: scalar branch float(lambda) * num_occurrences;
     matrix branch: exactly rounded sum (math.fsum) of the entries at the class positions,
     supplied by the instance as [fsum] *)
  Variable fsum : list A -> A.
  Definition lambda_sum_scalar (lam : A) (b W : nat) : A := mul lam (of_nat (W - b)).
  Definition lambda_sum_matrix (lam : nat -> nat -> A) (b r c N W : nat) : A :=
    fsum (map (fun RC => lam (fst RC) (snd RC)) (class_positions b r c N W)).

  (* write v at every index of idx *)
  Fixpoint set_at (l : list A) (k : nat) (v : A) : list A :=
    match l, k with
    | [], _ => []
    | _ :: r, 0 => v :: r
    | x :: r, S k' => x :: set_at r k' v
    end.
  Definition set_all (l : list A) (idx : list nat) (v : A) : list A :=
    fold_left (fun acc k => set_at acc k v) idx l.

  (* admm_update_z: lam_of b r c = lambda_sum for the class *)
  Definition z_class_value (rho : A) (tpu : list A) (lam_of : nat -> nat -> nat -> A) (N W : nat)
             (brc : nat * nat * nat) : A :=
    let '(b, r, c) := brc in
    let idx := locations_compressed b r c N W in
    let s := mul rho (np_sum (map (fun k => nth k tpu zero) idx)) in
    soft_threshold s (lam_of b r c) (mul rho (of_nat (W - b))).
  Definition z_update (rho : A) (lam_of : nat -> nat -> nat -> A) (N W : nat) (u x : list A) : list A :=
    let tpu := map2 add x u in
    fold_left (fun z brc =>
                 let '(b, r, c) := brc in
                 set_all z (locations_compressed b r c N W) (z_class_value rho tpu lam_of N W brc))
              (classes N W) (repeat zero (length x)).

  (* admm_update_u: u + x - z *)
  Definition u_update (u x z : list A) : list A := map2 sub (map2 add u x) z.

  (* check_convergence; the five norms are oracle inputs (BLAS nrm2):
     nx = ||x||, nz = ||z||, nru = ||rho u||, rp = ||x - z||, rd = ||rho (z - z_old)|| *)
  Definition tolerances (size : nat) (abs_tol rel_tol c0001 nx nz nru : A) : A * A :=
    let absolute_term := add (mul (sqrt (of_nat size)) abs_tol) c0001 in
    (add absolute_term (mul rel_tol (pmax nx nz)), add absolute_term (mul rel_tol nru)).
  Definition converged (size : nat) (abs_tol rel_tol c0001 nx nz nru rp rd : A) : bool :=
    let '(tp, td) := tolerances size abs_tol rel_tol c0001 nx nz nru in
    leb rp tp && leb rd td.

  (* the scalar map applied to every eigenvalue d of rho*(Z-U) - S in x_update_prox
     (tree with the cancellation repair); the eigenvalue of Theta is rho_scale * theta_num *)
  Variable two four : A.
  Definition theta_num (rho d : A) : A :=
    let root := sqrt (add (mul d d) (mul (mul four rho) one)) in
    if ltb d zero then div (mul four rho) (sub root d) else add d root.
  Definition theta_num_legacy (rho d : A) : A :=
    add d (sqrt (add (mul d d) (mul (mul four rho) one))).
  Definition rho_scale (rho : A) : A := div one (mul two rho).
  Definition theta (rho d : A) : A := mul (rho_scale rho) (theta_num rho d).
  Definition theta_legacy (rho d : A) : A := mul (rho_scale rho) (theta_num_legacy rho d).

  (* graphical_lasso._zero_small_elements: (x < eps) & (x > -eps) -> 0 ;  -eps is 0 - eps exactly *)
  Definition zero_small (eps x : A) : A :=
    if (ltb x eps && ltb (sub zero eps) x)%bool then zero else x.

  (* ---- the ADMM loop; x-update and the norms are oracles ---- *)
  Record admm_state := mk_admm { st_x : list A; st_z : list A; st_u : list A; st_zold : list A; st_rho : A }.
  Variable xprox : nat -> A -> list A -> list A -> list A.         (* iteration, rho, u, z -> new x *)
  Variable norms : nat -> admm_state -> A * A * A * A * A.         (* nx, nz, nru, rp, rd of the state reached in an iteration *)
  Variable rho_update : option (A -> A -> A -> A -> A -> A).       (* callback *)
  Variables (abs_tol rel_tol c0001 : A).

  (* returns the final state, the number of completed iterations and whether the loop
     stopped by convergence (break) *)
  Fixpoint admm_loop (fuel : nat) (it : nat) (lam_of : nat -> nat -> nat -> A) (N W : nat)
           (s : admm_state) : admm_state * nat * bool :=
    match fuel with
    | 0 => (s, it, false)
    | S fuel' =>
      let zold := st_z s in
      let x := xprox it (st_rho s) (st_u s) (st_z s) in
      let z := z_update (st_rho s) lam_of N W (st_u s) x in
      let u := u_update (st_u s) x z in
      let s1 := mk_admm x z u zold (st_rho s) in
      if Nat.eqb it 0 then admm_loop fuel' (S it) lam_of N W s1
      else
        let '(nx, nz, nru, rp, rd) := norms it s1 in
        if converged (length x) abs_tol rel_tol c0001 nx nz nru rp rd then (s1, S it, true)
        else
          match rho_update with
          | None => admm_loop fuel' (S it) lam_of N W s1
          | Some f =>
            let '(tp, td) := tolerances (length x) abs_tol rel_tol c0001 nx nz nru in
            let new_rho := f (st_rho s) rp tp rd td in
            let scale := div (st_rho s) new_rho in
            admm_loop fuel' (S it) lam_of N W (mk_admm x z (map (mul scale) u) zold new_rho)
          end
    end.
End A.
