(* Model of main_loop.fit_stacked_data as a state machine over abstract phase
   functions (oracles), in an error monad, with the life-cycle of the task pool.
   No proofs in this file.

     labels           one cluster id per stacked point
     repopF labels    repopulate_empty_clusters (None = RuntimeError)
     fitF   labels    update_all_cluster_statistics + optimize_markov_random_fields:
                      the fitted model for these labels (None = a task / phase failed)
     labelF model     predict_cluster_labels: new labels and their cost *)
From Coq Require Import List Arith Bool.
Import ListNotations.
From Ticc Require Import Model.State Model.Repop.

Inductive pool_state := PoolOpen | PoolClosedJoined | PoolTerminatedJoined.

Section Loop.
  Context {M C : Type}.
  Variable repopF : list nat -> option (list nat).
  Variable fitF : list nat -> option M.
  Variable labelF : M -> list nat * C.

  Record round_rec := mk_round {
    r_index : nat;            (* current_iteration *)
    r_in : list nat;          (* labels at the start of the round *)
    r_fit_on : list nat;      (* labels after (possible) repopulation: what the clusters are fitted to *)
    r_model : M;              (* statistics + MRFs fitted to r_fit_on *)
    r_out : list nat;         (* labels assigned by this round *)
    r_cost : C                (* their cost *)
  }.

  Inductive outcome :=
  | Failed (trace : list round_rec) (pool : pool_state)           (* an exception left the loop *)
  | Done (trace : list round_rec) (early : bool) (pool : pool_state).

  (* for current_iteration in range(limit): n = iterations still available *)
  Fixpoint loop (n i : nat) (prev : option (list nat)) (cur : list nat) (acc : list round_rec) : outcome :=
    match n with
    | 0 => Done (rev acc) false PoolClosedJoined
    | S n' =>
      match (if Nat.eqb i 0 then Some cur else repopF cur) with
      | None => Failed (rev acc) PoolTerminatedJoined
      | Some l1 =>
        match fitF l1 with
        | None => Failed (rev acc) PoolTerminatedJoined
        | Some m =>
          let '(l2, c) := labelF m in
          let rec := mk_round i cur l1 m l2 c in
          if (match prev with Some p => list_eqb p l2 | None => false end)
          then Done (rev (rec :: acc)) true PoolClosedJoined
          else loop n' (S i) (Some l2) l2 (rec :: acc)
        end
      end
    end.

  (* assert iteration_limit > 0 happens before anything else (no pool yet) *)
  Definition run (limit : nat) (init : list nat) : option outcome :=
    if Nat.eqb limit 0 then None else Some (loop limit 0 None init []).

  (* what fit_stacked_data returns: labels, cost and model of the LAST round *)
  Definition result_of (t : list round_rec) : option (list nat * C * M) :=
    match rev t with
    | r :: _ => Some (r_out r, r_cost r, r_model r)
    | [] => None
    end.
End Loop.

(* ---- the loop as it was before the pool repair (pool only closed after the loop) ---- *)
Section Legacy.
  Context {M C : Type}.
  Variable repopF : list nat -> option (list nat).
  Variable fitF : list nat -> option M.
  Variable labelF : M -> list nat * C.
  Fixpoint loop_legacy (n i : nat) (prev : option (list nat)) (cur : list nat) : pool_state :=
    match n with
    | 0 => PoolClosedJoined
    | S n' =>
      match (if Nat.eqb i 0 then Some cur else repopF cur) with
      | None => PoolOpen
      | Some l1 =>
        match fitF l1 with
        | None => PoolOpen
        | Some m =>
          let '(l2, c) := labelF m in
          if (match prev with Some p => list_eqb p l2 | None => false end) then PoolClosedJoined
          else loop_legacy n' (S i) (Some l2) l2
        end
      end
    end.
End Legacy.

(* ---- a checkable acceptor for traces recorded from the implementation (hooks H1/H3) ----
   A recorded round: (labels at start, labels the clusters were fitted to, labels assigned). *)
Definition rec3 := (list nat * list nat * list nat)%type.

Definition has_small_cluster (K : nat) (labels : list nat) : bool :=
  existsb (fun k => Nat.ltb (size labels k) 2) (seq 0 K).

Fixpoint chain_ok (K : nat) (i : nat) (prev_out : list nat) (t : list rec3) : bool :=
  match t with
  | [] => true
  | (lin, lfit, lout) :: r =>
    list_eqb lin prev_out &&
    (* repopulation is not attempted in round 0 and is the identity unless some cluster has < 2 points *)
    (if Nat.eqb i 0 then list_eqb lfit lin
     else if has_small_cluster K lin then true else list_eqb lfit lin) &&
    chain_ok K (S i) lout r
  end.

(* no two consecutive rounds before the last produced equal labellings *)
Fixpoint no_missed_stop (t : list rec3) : bool :=
  match t with
  | (_, _, o1) :: (((_, _, o2) :: (_ :: _)) as r) => negb (list_eqb o1 o2) && no_missed_stop r
  | _ => true
  end.

Definition last_two_equal (t : list rec3) : bool :=
  match rev t with
  | (_, _, o2) :: (_, _, o1) :: _ => list_eqb o1 o2
  | _ => false
  end.

Definition accept_c09 (K limit : nat) (init : list nat) (t : list rec3) (result_labels : list nat) : bool :=
  Nat.leb 1 (length t) && Nat.leb (length t) limit &&
  chain_ok K 0 init t &&
  no_missed_stop t &&
  (* stops early only when the last two rounds agree; otherwise the limit was used up *)
  (Nat.eqb (length t) limit || last_two_equal t) &&
  (* and did not run past an agreement *)
  (match rev t with (_, _, o) :: _ => list_eqb o result_labels | [] => false end).
