(* Model of cluster_label_assignment.assign_point_cluster_labels, generic in
   the carrier of costs (instantiated at R for the theorems and at binary64
   for the bit-exact correspondence).  No proofs in this file. *)
From Coq Require Import List Arith NArith.
Import ListNotations.

Fixpoint map2 {B C D} (f : B -> C -> D) (l1 : list B) (l2 : list C) : list D :=
  match l1, l2 with
  | x :: r1, y :: r2 => f x y :: map2 f r1 r2
  | _, _ => []
  end.

(* store into the uint16 path matrix *)
Definition wrap16 (n : nat) : nat := N.to_nat (N.of_nat n mod 65536%N).

Section V.
  Context {A : Type}.
  Variable zero : A.
  Variables add sub : A -> A -> A.
  Variable ltb : A -> A -> bool.

  (* np.argmin: index of the first minimum *)
  Fixpoint argmin_from (best : A) (bi i : nat) (l : list A) : nat :=
    match l with
    | [] => bi
    | x :: r => if ltb x best then argmin_from x i (S i) r else argmin_from best bi (S i) r
    end.
  Definition argmin (l : list A) : nat :=
    match l with [] => 0 | x :: r => argmin_from x 0 1 r end.

  (* inner loop body for one cluster:
       if total[g] < total[c] - beta: (path, future) = (g, total[g])
       else:                          (path, future) = (c, total[c] - beta) *)
  Definition stepv (beta : A) (total : list A) (g c : nat) : A * nat :=
    let tg := nth g total zero in
    let tc := nth c total zero in
    if ltb tg (sub tc beta) then (tg, wrap16 g) else (sub tc beta, wrap16 c).

  (* one iteration of the backward loop:
       total = future[i+1] + cost[i+1] + beta[i] ; g = argmin(total) *)
  Definition step (beta : A) (fut cost : list A) : list A * list nat :=
    let total := map2 (fun f c => add (add f c) beta) fut cost in
    let g := argmin total in
    split (map (stepv beta total g) (seq 0 (length total))).

  (* backward pass over the rows; future[T-1] = zeros(K).
     Returns future[0] and the path matrix rows 0 .. T-2. *)
  Fixpoint bw (K : nat) (rows : list (list A)) (betas : list A) : list A * list (list nat) :=
    match rows with
    | [] => ([], [])
    | r :: rest =>
      match rest with
      | [] => (repeat zero K, [])
      | r' :: _ =>
        let '(f', P) := bw K rest (tl betas) in
        let '(f, p) := step (hd zero betas) f' r' in
        (f, p :: P)
      end
    end.

  (* path[i+1] = path_matrix[i, path[i]] *)
  Fixpoint follow (c : nat) (P : list (list nat)) : list nat :=
    match P with
    | [] => []
    | p :: P' => let c' := nth c p 0 in c' :: follow c' P'
    end.

  (* label_switching_cost = np.zeros(T) + label_switching_cost *)
  Definition broadcast (betas : list A) : list A := map (add zero) betas.

  Definition viterbi (K : nat) (rows : list (list A)) (betas : list A) : list nat * A :=
    let bs := broadcast betas in
    let '(f0, P) := bw K rows bs in
    let row0 := hd [] rows in
    let p0 := argmin (map2 add f0 row0) in
    (p0 :: follow p0 P, add (nth p0 f0 zero) (nth p0 row0 zero)).

  Definition viterbi_scalar (K : nat) (rows : list (list A)) (beta : A) : list nat * A :=
    viterbi K rows (repeat beta (length rows)).

  (* ---- specification: cost of a label sequence ---- *)
  (* cost of giving the rows [rest] the labels [q] when the row before them has
     label c; hd betas prices the pair (c, hd q) *)
  Fixpoint tcost (c : nat) (rest : list (list A)) (betas : list A) (q : list nat) : A :=
    match rest, q with
    | r :: rest', c' :: q' =>
        add (add (if Nat.eqb c c' then zero else hd zero betas) (nth c' r zero))
            (tcost c' rest' (tl betas) q')
    | _, _ => zero
    end.
  (* total cost of a label sequence: chosen assignment costs plus beta_i for
     every consecutive pair (i,i+1) with different labels *)
  Definition pcost (rows : list (list A)) (betas : list A) (path : list nat) : A :=
    match rows, path with
    | r :: rest, c :: q => add (nth c r zero) (tcost c rest betas q)
    | _, _ => zero
    end.

  (* the same quantity written as two separate sums *)
  Fixpoint assign_sum (rows : list (list A)) (path : list nat) : A :=
    match rows, path with
    | r :: rest, c :: q => add (nth c r zero) (assign_sum rest q)
    | _, _ => zero
    end.
  Fixpoint switch_sum (betas : list A) (path : list nat) : A :=
    match path with
    | c :: ((c' :: _) as q) =>
        add (if Nat.eqb c c' then zero else hd zero betas) (switch_sum (tl betas) q)
    | _ => zero
    end.
End V.

Definition wf_rows {A} (K : nat) (rows : list (list A)) := Forall (fun r => length r = K) rows.
Definition wf_path (K : nat) (q : list nat) := Forall (fun c => c < K) q.
