(* Effect summaries and a provenance analysis for "caller-owned data is never modified" (C19).
   No proofs here.

   A summary is a straight-line list of effects on named buffers (one list per control-flow
   path of an entry point).  Buffers are tagged Caller (passed in by the user) or Fresh
   (allocated by the library).  Variables hold references to buffers. *)
From Coq Require Import List Arith Bool.
Import ListNotations.

Definition var := nat.
Definition buf := nat.

Inductive effect :=
| EAlloc (x : var)                 (* x = np.zeros(...) / np.copy(...) / arithmetic result: a fresh buffer *)
| ECopy (x y : var)                (* x = np.copy(y) / list(y) / y + 0: fresh buffer with y's content *)
| EView (x y : var)                (* x = y / y.T / y[a:b] / np.asarray(y) / reshape: same buffer *)
| EWrite (x : var) (v : nat)       (* x[...] = v / x += v / x.sort() / out=x: in-place write through x *)
| ERaise.                          (* the path ends with an exception *)

(* concrete state: which buffer each variable refers to, owner tag and content of each buffer *)
Record cstate := mk_c { env : var -> option buf; owner_caller : buf -> bool; content : buf -> nat; next : buf }.

Definition upd_env (e : var -> option buf) (x : var) (b : buf) : var -> option buf :=
  fun y => if Nat.eqb y x then Some b else e y.
Definition upd_content (c : buf -> nat) (b : buf) (v : nat) : buf -> nat :=
  fun b' => if Nat.eqb b' b then v else c b'.
Definition upd_owner (o : buf -> bool) (b : buf) (v : bool) : buf -> bool :=
  fun b' => if Nat.eqb b' b then v else o b'.

(* None = stuck (use of an unbound variable); ERaise stops the path keeping the state *)
Fixpoint exec (s : cstate) (p : list effect) : option cstate :=
  match p with
  | [] => Some s
  | EAlloc x :: r =>
      exec (mk_c (upd_env (env s) x (next s)) (upd_owner (owner_caller s) (next s) false)
                 (upd_content (content s) (next s) 0) (S (next s))) r
  | ECopy x y :: r =>
      match env s y with
      | Some b => exec (mk_c (upd_env (env s) x (next s)) (upd_owner (owner_caller s) (next s) false)
                             (upd_content (content s) (next s) (content s b)) (S (next s))) r
      | None => None
      end
  | EView x y :: r =>
      match env s y with
      | Some b => exec (mk_c (upd_env (env s) x b) (owner_caller s) (content s) (next s)) r
      | None => None
      end
  | EWrite x v :: r =>
      match env s x with
      | Some b => exec (mk_c (env s) (owner_caller s) (upd_content (content s) b v) (next s)) r
      | None => None
      end
  | ERaise :: _ => Some s
  end.

(* abstract provenance: may the variable refer to a caller-owned buffer? *)
Inductive prov := PCaller | PFresh.
Definition aenv := var -> prov.     (* unbound variables are treated as PCaller (conservative) *)
Definition upd_aenv (a : aenv) (x : var) (p : prov) : aenv := fun y => if Nat.eqb y x then p else a y.

Fixpoint safe (a : aenv) (p : list effect) : bool :=
  match p with
  | [] => true
  | EAlloc x :: r => safe (upd_aenv a x PFresh) r
  | ECopy x _ :: r => safe (upd_aenv a x PFresh) r
  | EView x y :: r => safe (upd_aenv a x (a y)) r
  | EWrite x _ :: r => match a x with PFresh => safe a r | PCaller => false end
  | ERaise :: _ => true
  end.

(* every parameter starts as caller-owned *)
Definition all_caller : aenv := fun _ => PCaller.

(* the abstract environment over-approximates the concrete one *)
Definition approx (a : aenv) (s : cstate) : Prop :=
  forall x b, env s x = Some b -> owner_caller s b = true -> a x = PCaller.
(* buffers at or above [next] are unused *)
Definition wf_c (s : cstate) : Prop := forall x b, env s x = Some b -> b < next s.
