(* Carrier instance: IEEE binary64 (primitive floats), used by the bit-exact
   correspondence.  Import PrimFloat, not Floats (keeps axioms out). *)
From Coq Require Import PrimFloat FloatOps SpecFloat Bool ZArith List.
Import ListNotations.

(* bitwise equality (distinguishes -0 from +0, identifies all NaNs) *)
Definition sf_eqb (a b : spec_float) : bool :=
  match a, b with
  | S754_zero s1, S754_zero s2 => Bool.eqb s1 s2
  | S754_infinity s1, S754_infinity s2 => Bool.eqb s1 s2
  | S754_nan, S754_nan => true
  | S754_finite s1 m1 e1, S754_finite s2 m2 e2 => Bool.eqb s1 s2 && Pos.eqb m1 m2 && Z.eqb e1 e2
  | _, _ => false
  end.
Definition feqb (x y : float) : bool := sf_eqb (Prim2SF x) (Prim2SF y).

Fixpoint list_feqb (a b : list float) : bool :=
  match a, b with
  | [], [] => true
  | x :: a', y :: b' => feqb x y && list_feqb a' b'
  | _, _ => false
  end.

Definition fmax (x y : float) : float := if PrimFloat.ltb x y then y else x.
Definition fmin (x y : float) : float := if PrimFloat.ltb y x then y else x.

(* ---- exactly rounded summation (math.fsum): round the exact sum once ---- *)
Definition sf_parts (f : float) : Z * Z :=
  match Prim2SF f with
  | S754_finite s m e => ((if s then Z.neg m else Z.pos m), e)
  | _ => (0%Z, 0%Z)
  end.
Definition fsumF (l : list float) : float :=
  let parts := filter (fun p => negb (Z.eqb (fst p) 0)) (map sf_parts l) in
  match parts with
  | [] => 0%float
  | p0 :: _ =>
    let emin := fold_left Z.min (map snd parts) (snd p0) in
    let total := fold_left Z.add (map (fun p => (fst p * 2 ^ (snd p - emin))%Z) parts) 0%Z in
    SF2Prim (binary_normalize prec emax total emin false)
  end.

Definition of_natF (n : nat) : float := PrimFloat.of_uint63 (Uint63.of_Z (Z.of_nat n)).
Definition c0001F : float := 0x1.a36e2eb1c432dp-14%float.   (* 0.0001 *)
