(* Carrier instance: IEEE binary64 (primitive floats), used by the bit-exact
   correspondence.  Import PrimFloat, not Floats (keeps axioms out). *)
From Coq Require Import PrimFloat FloatOps SpecFloat Bool ZArith List.
Import ListNotations.

(* bitwise equality (distinguishes -0 from +0, identifies all NaNs) *)
Definition sf_eqb (a b : spec_float) : bool :=
  match a, b with
  | S754_zero s1, S754_zero s2 => Bool.eqb s1 s2
  | S754_infinity s1, S754_infinity s2 => Bool.eqb s1 s2
  | S754_nan, S754_nan => true
  | S754_finite s1 m1 e1, S754_finite s2 m2 e2 => Bool.eqb s1 s2 && Pos.eqb m1 m2 && Z.eqb e1 e2
  | _, _ => false
  end.
Definition feqb (x y : float) : bool := sf_eqb (Prim2SF x) (Prim2SF y).

Fixpoint list_feqb (a b : list float) : bool :=
  match a, b with
  | [], [] => true
  | x :: a', y :: b' => feqb x y && list_feqb a' b'
  | _, _ => false
  end.

Definition fmax (x y : float) : float := if PrimFloat.ltb x y then y else x.
Definition fmin (x y : float) : float := if PrimFloat.ltb y x then y else x.
