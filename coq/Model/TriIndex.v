(* Model of fast_ticc/matrix_compression.py and of the index arithmetic in
   fast_ticc/admm/unique_values.py.  No proofs in this file.

   Matrices are functions  nat -> nat -> A  restricted to [0,n) x [0,n); the
   compressed form is a list of length n(n+1)/2. *)
From Coq Require Import List Arith.
Import ListNotations.

(* np.triu_indices(n): row-major enumeration of the upper triangle incl. diagonal *)
Definition triu (n : nat) : list (nat * nat) :=
  flat_map (fun r => map (fun c => (r, c)) (seq r (n - r))) (seq 0 n).

(* _compressed_index(row, column, n) =
     int( n*(r+1) - r*(r+1)/2 - ((n-1-c) + 1) )        for r <= c < n.
   r*(r+1) is even, so the true division is exact. *)
Definition size_including_row (r n : nat) : nat := n * (r + 1) - r * (r + 1) / 2.
Definition elements_after (c n : nat) : nat := (n - 1) - c.
Definition tri_index (n r c : nat) : nat := size_including_row r n - (elements_after c n + 1).

(* _full_matrix_size(m) = int((sqrt(8m+1) - 1)/2) *)
Definition full_matrix_size (m : nat) : nat := (Nat.sqrt (8 * m + 1) - 1) / 2.

Section Matrix.
  Context {A : Type}.
  Variable zero : A.
  Variables add sub : A -> A -> A.

  (* compress_matrix: M[triu_indices(n)] *)
  Definition compress (n : nat) (M : nat -> nat -> A) : list A :=
    map (fun rc => M (fst rc) (snd rc)) (triu n).

  (* position of (r,c) in the enumeration, by search (NOT by the closed form) *)
  Fixpoint find_pos (rc : nat * nat) (l : list (nat * nat)) (k : nat) : option nat :=
    match l with
    | [] => None
    | x :: rest => if (Nat.eqb (fst x) (fst rc) && Nat.eqb (snd x) (snd rc))%bool then Some k
                   else find_pos rc rest (S k)
    end.

  (* _uncompress_upper_triangle: square[triu_indices(n)] = v *)
  Definition upper (n : nat) (v : list A) (r c : nat) : A :=
    match find_pos (r, c) (triu n) 0 with
    | Some k => nth k v zero
    | None => zero
    end.

  (* _upper_to_full: (U + U^T) - diag(diag(U)) *)
  Definition upper_to_full (U : nat -> nat -> A) (r c : nat) : A :=
    sub (add (U r c) (U c r)) (if Nat.eqb r c then U r r else zero).

  Definition reinflate (v : list A) : nat -> nat -> A :=
    upper_to_full (upper (full_matrix_size (length v)) v).

  Definition matrix_rows (n : nat) (M : nat -> nat -> A) : list (list A) :=
    map (fun r => map (fun c => M r c) (seq 0 n)) (seq 0 n).
End Matrix.

(* ---- Toeplitz classes (unique_values.py) ---- *)
(* _block_start_coordinates(b, N, W): corners of the W-b occurrences of block b *)
Definition block_starts (b N W : nat) : list (nat * nat) :=
  map (fun i => (i * N, b * N + i * N)) (seq 0 (W - b)).

(* _unique_variable_locations(b, r, c, N, W) *)
Definition class_positions (b r c N W : nat) : list (nat * nat) :=
  map (fun RC => (fst RC + r, snd RC + c)) (block_starts b N W).

(* locations_compressed / locations_index_slices *)
Definition locations_compressed (b r c N W : nat) : list nat :=
  map (fun RC => tri_index (N * W) (fst RC) (snd RC)) (class_positions b r c N W).
Definition locations_slices (b r c N W : nat) : list nat * list nat :=
  (map fst (class_positions b r c N W), map snd (class_positions b r c N W)).

(* enumeration order of admm_update_z: for b, for r, for c in [r if b=0 else 0, N) *)
Definition classes (N W : nat) : list (nat * nat * nat) :=
  flat_map (fun b =>
    flat_map (fun r =>
      map (fun c => (b, r, c)) (seq (if Nat.eqb b 0 then r else 0) (N - (if Nat.eqb b 0 then r else 0))))
      (seq 0 N))
    (seq 0 W).

Definition positions_of (N W : nat) (brc : nat * nat * nat) : list (nat * nat) :=
  let '(b, r, c) := brc in class_positions b r c N W.
