(* Model of containers/model_state.py (ClusterParameters, ModelState) and of the
   way the four phases of the main loop create and mutate these objects:
   an explicit heap of Python objects with identities.  No proofs here.

   Heap: a list of objects, the location of an object is its index; allocation
   appends, nothing is ever freed (garbage is invisible to the properties).
   NumPy arrays are immutable in this model (no phase writes into an existing
   array of a model state; C19 is about that) and carry an abstract content. *)
From Coq Require Import List Arith Bool.
Import ListNotations.
From Ticc Require Import Model.Repop.

Definition loc := nat.

Inductive obj :=
| OList (items : list nat)                    (* Python list of ints: labels / member_points *)
| OArr (content : list nat)                   (* NumPy array; content is an abstract description *)
| ORefs (refs : list loc)                     (* Python list of cluster objects (ModelState.clusters) *)
| OArgs (K m : nat) (lam beta : option loc)   (* UserArguments; array-valued lambda / beta *)
| OCluster (members : loc)                    (* _member_points *)
           (ec mean ti cc ic : option loc)    (* empirical_covariance, stacked_data_mean, train_inverse,
                                                 computed_covariance, inverse_covariance *)
           (logdet : option (list nat))       (* log_determinant (a float: abstract value) *)
| OState (args : loc) (clusters : loc)        (* arguments, clusters (an ORefs) *)
         (labels : option loc)                (* _point_labels *)
         (cost : option (list nat))           (* label_assignment_cost *)
         (data : loc).                        (* stacked_training_data *)

Definition heap := list obj.
Definition get (h : heap) (l : loc) : option obj := nth_error h l.
Definition alloc (h : heap) (o : obj) : heap * loc := (h ++ [o], length h).
Fixpoint upd (h : heap) (l : loc) (o : obj) : heap :=
  match h, l with
  | [], _ => []
  | _ :: r, O => o :: r
  | x :: r, S l' => x :: upd r l' o
  end.

Definition get_list (h : heap) (l : loc) : list nat :=
  match get h l with Some (OList xs) => xs | _ => [] end.
Definition get_refs (h : heap) (l : loc) : list loc :=
  match get h l with Some (ORefs rs) => rs | _ => [] end.

(* ---------- small helpers over Python values ---------- *)
Fixpoint list_eqb (a b : list nat) : bool :=
  match a, b with
  | [], [] => true
  | x :: a', y :: b' => Nat.eqb x y && list_eqb a' b'
  | _, _ => false
  end.
(* positions of label k (the list built by _update_cluster_membership); ascending *)
Definition positions (labels : list nat) (k : nat) : list nat := members labels k.

(* ---------- ClusterParameters ---------- *)
(* member_points setter *)
Definition set_members (h : heap) (c : loc) (new : list nat) : heap :=
  match get h c with
  | Some (OCluster mem ec mean ti cc ic ld) =>
    if Nat.eqb (length new) 0 then
      let '(h1, l) := alloc h (OList []) in upd h1 c (OCluster l ec mean ti cc ic ld)
    else if list_eqb new (get_list h mem) then h
    else let '(h1, l) := alloc h (OList new) in      (* sorted(new): new is already ascending *)
         upd h1 c (OCluster l ec mean ti cc ic ld)
  | _ => h
  end.

(* ClusterParameters(...): __init__ always stores sorted(member_points), a fresh list *)
Definition new_cluster (h : heap) (mem : list nat) (ec mean ti cc ic : option loc)
           (ld : option (list nat)) : heap * loc :=
  let '(h1, l) := alloc h (OList mem) in alloc h1 (OCluster l ec mean ti cc ic ld).

Definition cluster_shallow_copy (h : heap) (c : loc) : heap * loc :=
  match get h c with
  | Some (OCluster mem ec mean ti cc ic ld) => new_cluster h (get_list h mem) ec mean ti cc ic ld
  | _ => (h, c)
  end.

(* np.copy(x): a fresh array; np.copy(None) is a fresh 0-d object array *)
Definition copy_arr (h : heap) (a : option loc) : heap * option loc :=
  match a with
  | Some l => match get h l with
              | Some (OArr c) => let '(h1, l1) := alloc h (OArr c) in (h1, Some l1)
              | _ => (h, a)
              end
  | None => let '(h1, l1) := alloc h (OArr []) in (h1, Some l1)
  end.

Definition cluster_deep_copy (h : heap) (c : loc) : heap * loc :=
  match get h c with
  | Some (OCluster mem ec mean ti cc ic ld) =>
    let '(h1, cc') := copy_arr h cc in
    let '(h2, ec') := copy_arr h1 ec in
    let '(h3, ic') := copy_arr h2 ic in
    let '(h4, mean') := copy_arr h3 mean in
    let '(h5, ti') := copy_arr h4 ti in
    new_cluster h5 (get_list h mem) ec' mean' ti' cc' ic' ld
  | _ => (h, c)
  end.

Fixpoint map_heap (f : heap -> loc -> heap * loc) (h : heap) (ls : list loc) : heap * list loc :=
  match ls with
  | [] => (h, [])
  | l :: r => let '(h1, l1) := f h l in let '(h2, r2) := map_heap f h1 r in (h2, l1 :: r2)
  end.

(* ---------- ModelState ---------- *)
Definition state_K (h : heap) (s : loc) : nat :=
  match get h s with
  | Some (OState a _ _ _ _) => match get h a with Some (OArgs K _ _ _) => K | _ => 0 end
  | _ => 0
  end.
Definition state_m (h : heap) (s : loc) : nat :=
  match get h s with
  | Some (OState a _ _ _ _) => match get h a with Some (OArgs _ m _ _) => m | _ => 0 end
  | _ => 0
  end.
Definition state_clusters (h : heap) (s : loc) : list loc :=
  match get h s with Some (OState _ cl _ _ _) => get_refs h cl | _ => [] end.
Definition state_labels (h : heap) (s : loc) : option (list nat) :=
  match get h s with
  | Some (OState _ _ (Some l) _ _) => Some (get_list h l)
  | _ => None
  end.
Definition cluster_members (h : heap) (c : loc) : list nat :=
  match get h c with Some (OCluster mem _ _ _ _ _ _) => get_list h mem | _ => [] end.

(* _update_cluster_membership *)
Fixpoint update_membership (h : heap) (cs : list loc) (labels : list nat) (k : nat) : heap :=
  match cs with
  | [] => h
  | c :: r => update_membership (set_members h c (positions labels k)) r labels (S k)
  end.
Fixpoint clear_membership (h : heap) (cs : list loc) : heap :=
  match cs with
  | [] => h
  | c :: r => clear_membership (set_members h c []) r
  end.

(* point_labels setter; [l] is the list object being assigned (no copy is made) *)
Definition set_labels (h : heap) (s : loc) (l : loc) : heap :=
  match get h s with
  | Some (OState a cl old cost data) =>
    let new := get_list h l in
    let same := match old with Some o => list_eqb new (get_list h o) | None => false end in
    if same then h
    else
      let h1 := upd h s (OState a cl (Some l) cost data) in
      let K := state_K h s in
      (* only the first num_clusters clusters are touched: range(self.arguments.num_clusters) *)
      if Nat.eqb (length new) 0 then clear_membership h1 (get_refs h cl)
      else update_membership h1 (firstn K (get_refs h cl)) new 0
  | _ => h
  end.

Definition state_shallow_copy (h : heap) (s : loc) : heap * loc :=
  match get h s with
  | Some (OState a cl lab cost data) =>
    let '(h1, cl') := alloc h (ORefs (get_refs h cl)) in      (* list(self.clusters) *)
    alloc h1 (OState a cl' lab cost data)
  | _ => (h, s)
  end.

Definition args_deep_copy (h : heap) (a : loc) : heap * loc :=
  match get h a with
  | Some (OArgs K m lam beta) =>
    let cp := fun (h : heap) (x : option loc) =>
      match x with
      | Some l => match get h l with
                  | Some (OArr c) => let '(h1, l1) := alloc h (OArr c) in (h1, Some l1)
                  | _ => (h, x)
                  end
      | None => (h, None)
      end in
    let '(h1, lam') := cp h lam in
    let '(h2, beta') := cp h1 beta in
    alloc h2 (OArgs K m lam' beta')
  | _ => (h, a)
  end.

(* requires labels to be set (list(None) raises) *)
Definition state_deep_copy (h : heap) (s : loc) : heap * loc :=
  match get h s with
  | Some (OState a cl (Some lab) cost data) =>
    let '(h1, cs') := map_heap cluster_deep_copy h (get_refs h cl) in
    let '(h2, a') := args_deep_copy h1 a in
    let '(h3, lab') := alloc h2 (OList (get_list h lab)) in
    let '(h4, data') := copy_arr h3 (Some data) in
    let '(h5, cl') := alloc h4 (ORefs cs') in
    alloc h5 (OState a' cl' (Some lab') cost (match data' with Some d => d | None => data end))
  | _ => (h, s)
  end.

(* ModelState.empty_model *)
Fixpoint empty_clusters (h : heap) (K : nat) : heap * list loc :=
  match K with
  | O => (h, [])
  | S K' => let '(h1, c) := new_cluster h [] None None None None None None in
            let '(h2, r) := empty_clusters h1 K' in (h2, c :: r)
  end.
Definition empty_model (h : heap) (a : loc) (K : nat) (data : loc) : heap * loc :=
  let '(h1, cs) := empty_clusters h K in
  let '(h2, cl) := alloc h1 (ORefs cs) in
  alloc h2 (OState a cl None None data).

(* set the clusters attribute to a fresh list of the given objects *)
Definition set_clusters (h : heap) (s : loc) (cs : list loc) : heap :=
  match get h s with
  | Some (OState a _ lab cost data) =>
    let '(h1, cl) := alloc h (ORefs cs) in upd h1 s (OState a cl lab cost data)
  | _ => h
  end.
Definition set_cost (h : heap) (s : loc) (c : list nat) : heap :=
  match get h s with
  | Some (OState a cl lab _ data) => upd h s (OState a cl lab (Some c) data)
  | _ => h
  end.

(* ---------- the four phases ---------- *)
(* cluster_maintenance.repopulate_empty_clusters.
   [order]: iteration order of the set of under-populated clusters; [draws]: random.sample results;
   [spread]: rank of ||computed_covariance||.  None = RuntimeError. *)
Fixpoint refill_state (h : heap) (s : loc) (m : nat) (rem order : list nat)
         (draws : list (list nat)) : option heap :=
  match order with
  | [] => Some h
  | e :: order' =>
    let labels := match state_labels h s with Some l => l | None => [] end in
    match find_donor (S (length rem)) m labels rem with
    | None => None
    | Some (d, rem') =>
      let '(h1, l) := alloc h (OList (move labels d e (hd [] draws))) in
      refill_state (set_labels h1 s l) s m rem' order' (tl draws)
    end
  end.

Definition phase_repopulate (h : heap) (s : loc) (spread : nat -> nat) (order : list nat)
           (draws : list (list nat)) : option (heap * loc) :=
  match order with
  | [] => Some (h, s)                                         (* "return model" *)
  | _ =>
    let '(h1, s1) := state_shallow_copy h s in
    let '(h2, cs) := map_heap cluster_deep_copy h1 (state_clusters h s) in
    let h3 := set_clusters h2 s1 cs in
    let labels := match state_labels h3 s1 with Some l => l | None => [] end in
    let K := state_K h3 s1 in
    let m := state_m h3 s1 in
    match refill_state h3 s1 m (rank_donors K m spread labels) order draws with
    | None => None
    | Some h4 => Some (h4, s1)
    end
  end.

(* cluster_maintenance.update_all_cluster_statistics: per cluster a shallow copy with fresh
   empirical_covariance / stacked_data_mean computed from training_data[member_points] *)
Definition stat_cluster (biased : bool) (h : heap) (c : loc) : heap * loc :=
  let mem := cluster_members h c in
  let '(h1, c1) := cluster_shallow_copy h c in
  match get h1 c1 with
  | Some (OCluster ml _ _ ti cc ic ld) =>
    (* a single row always gets the biased estimate (all zeros), whatever the row and the flag *)
    let '(h2, ec) := alloc h1 (OArr (if Nat.eqb (length mem) 1 then [1; 1]
                                     else 1 :: (if biased then 1 else 0) :: mem)) in
    let '(h3, mu) := alloc h2 (OArr (2 :: mem)) in
    (upd h3 c1 (OCluster ml (Some ec) (Some mu) ti cc ic ld), c1)
  | _ => (h1, c1)
  end.
(* None = AssertionError("Cluster needs at least one point assigned to it.") *)
Definition phase_statistics (h : heap) (s : loc) (biased : bool) : option (heap * loc) :=
  let cs0 := firstn (state_K h s) (state_clusters h s) in
  if forallb (fun c => negb (Nat.eqb (length (cluster_members h c)) 0)) cs0 then
    let '(h1, s1) := state_shallow_copy h s in
    let '(h2, cs) := map_heap (stat_cluster biased) h1 cs0 in
    (* item assignment into the copy's own list object: clusters[k] = ... for k < K *)
    match get h2 s1 with
    | Some (OState _ cl _ _ _) => Some (upd h2 cl (ORefs (cs ++ skipn (state_K h s) (state_clusters h s))), s1)
    | _ => Some (h2, s1)
    end
  else None.

(* graphical_lasso.optimize_markov_random_fields: [mrf k] abstract optimiser result for cluster k *)
Definition opt_cluster (mrf : nat -> list nat) (h : heap) (kc : nat * loc) : heap * loc :=
  let '(k, c) := kc in
  let '(h1, c1) := cluster_shallow_copy h c in
  match get h1 c1 with
  | Some (OCluster ml ec mean _ _ ic _) =>
    let '(h2, ti) := alloc h1 (OArr (3 :: mrf k)) in
    let '(h3, cc) := alloc h2 (OArr (4 :: mrf k)) in
    (upd h3 c1 (OCluster ml ec mean (Some ti) (Some cc) ic (Some (5 :: mrf k))), c1)
  | _ => (h1, c1)
  end.
Fixpoint map_heap_idx (f : heap -> nat * loc -> heap * loc) (h : heap) (k : nat) (ls : list loc)
  : heap * list loc :=
  match ls with
  | [] => (h, [])
  | l :: r => let '(h1, l1) := f h (k, l) in let '(h2, r2) := map_heap_idx f h1 (S k) r in (h2, l1 :: r2)
  end.
Definition phase_optimise (h : heap) (s : loc) (mrf : nat -> list nat) : heap * loc :=
  let '(h1, cs) := map_heap_idx (opt_cluster mrf) h 0 (state_clusters h s) in
  let '(h2, s1) := state_shallow_copy h1 s in
  (set_clusters h2 s1 cs, s1).

(* cluster_label_assignment.predict_cluster_labels; likelihood writes a scoring cache into the
   clusters of the state it was GIVEN: inverse_covariance := train_inverse (same object),
   log_determinant := recomputed value *)
Fixpoint cache_write (h : heap) (cs : list loc) : heap :=
  match cs with
  | [] => h
  | c :: r =>
    match get h c with
    | Some (OCluster ml ec mean ti cc _ _) =>
      let ld := match ti with
                | Some t => match get h t with Some (OArr (_ :: x)) => Some (5 :: x) | _ => Some [5] end
                | None => Some [5]
                end in
      cache_write (upd h c (OCluster ml ec mean ti cc ti ld)) r
    | _ => cache_write h r
    end
  end.
Definition phase_relabel (h : heap) (s : loc) (new_labels : list nat) (cost : list nat) : heap * loc :=
  let h0 := cache_write h (firstn (state_K h s) (state_clusters h s)) in
  let '(h1, s1) := state_shallow_copy h0 s in
  let '(h2, cs) := map_heap cluster_deep_copy h1 (state_clusters h0 s) in
  let h3 := set_clusters h2 s1 cs in
  let '(h4, l) := alloc h3 (OList new_labels) in
  let h5 := set_labels h4 s1 l in
  (set_cost h5 s1 cost, s1).

(* ---------- operation sequences on a current state ---------- *)
Inductive op :=
| OpSetLabels (labels : list nat)      (* assign a fresh list to point_labels of the current state *)
| OpShallow                            (* current := current.shallow_copy() *)
| OpDeep                               (* current := current.deep_copy() *)
| OpRepopulate (spread : list nat) (order : list nat) (draws : list (list nat))
| OpStatistics (biased : bool)
| OpOptimise (tag : nat)
| OpRelabel (labels : list nat) (cost : nat).

Definition step (hs : heap * loc) (o : op) : option (heap * loc) :=
  let '(h, s) := hs in
  match o with
  | OpSetLabels ls => let '(h1, l) := alloc h (OList ls) in Some (set_labels h1 s l, s)
  | OpShallow => Some (state_shallow_copy h s)
  | OpDeep => Some (state_deep_copy h s)
  | OpRepopulate sp order draws => phase_repopulate h s (fun k => nth k sp 0) order draws
  | OpStatistics b => phase_statistics h s b
  | OpOptimise tag => Some (phase_optimise h s (fun k => [tag; k]))
  | OpRelabel ls c => Some (phase_relabel h s ls [c])
  end.

Fixpoint run_ops (hs : heap * loc) (ops : list op) : option (heap * loc) :=
  match ops with
  | [] => Some hs
  | o :: r => match step hs o with Some hs' => run_ops hs' r | None => None end
  end.

(* initial configuration: arguments, data array, empty model *)
Definition init (K m : nat) (lam_arr beta_arr : bool) : heap * loc :=
  let '(h0, d) := alloc [] (OArr [9]) in
  let '(h1, lam) := if lam_arr then (let '(h, l) := alloc h0 (OArr [7]) in (h, Some l)) else (h0, None) in
  let '(h2, beta) := if beta_arr then (let '(h, l) := alloc h1 (OArr [8]) in (h, Some l)) else (h1, None) in
  let '(h3, a) := alloc h2 (OArgs K m lam beta) in
  empty_model h3 a K d.

(* ---------- the invariant ---------- *)
(* exactly K clusters and cluster k's member list is exactly the ascending list
   of the points labelled k *)
Definition Inv (h : heap) (s : loc) : Prop :=
  length (state_clusters h s) = state_K h s /\
  match state_labels h s with
  | Some labels =>
      forall k c, nth_error (state_clusters h s) k = Some c -> cluster_members h c = positions labels k
  | None => forall c, In c (state_clusters h s) -> cluster_members h c = []
  end.

Definition labels_ok (K n : nat) (labels : list nat) : Prop :=
  length labels = n /\ Forall (fun c => c < K) labels.

(* ---------- objects reachable from a state (for the disjointness of deep copies) ---------- *)
Definition olocs (o : option loc) : list loc := match o with Some l => [l] | None => [] end.
Definition cluster_reach (h : heap) (c : loc) : list loc :=
  match get h c with
  | Some (OCluster mem ec mean ti cc ic _) => c :: mem :: olocs ec ++ olocs mean ++ olocs ti ++ olocs cc ++ olocs ic
  | _ => [c]
  end.
Definition state_reach (h : heap) (s : loc) : list loc :=
  match get h s with
  | Some (OState a cl lab _ data) =>
    s :: a :: (match get h a with Some (OArgs _ _ lam beta) => olocs lam ++ olocs beta | _ => [] end)
      ++ cl :: concat (map (cluster_reach h) (get_refs h cl)) ++ olocs lab ++ [data]
  | _ => [s]
  end.

(* well-formed current state: typed references, exactly K pairwise distinct cluster objects *)
Definition WF (h : heap) (s : loc) : Prop :=
  exists a cl lab cost data K m lam beta cs,
    get h s = Some (OState a cl lab cost data) /\
    get h a = Some (OArgs K m lam beta) /\
    get h cl = Some (ORefs cs) /\ length cs = K /\ NoDup cs /\
    (forall c, In c cs -> exists mem ec mean ti cc ic ld ms,
        get h c = Some (OCluster mem ec mean ti cc ic ld) /\ get h mem = Some (OList ms)) /\
    (forall l, lab = Some l -> exists ls, get h l = Some (OList ls)).
