(* Model of the statistics handed to the MRF optimiser (cluster_maintenance.
   update_cluster_member_data_statistics): mean and covariance of the selected rows.
   Generic in the carrier (evaluated over Q for the tie, stated over R for the theorem). *)
From Coq Require Import List Arith Bool.
Import ListNotations.
From Ticc Require Import Model.Viterbi.

Section S.
  Context {A : Type}.
  Variables (zero : A) (add sub mul div : A -> A -> A) (of_nat : nat -> A).

  Definition select (rows : list nat) (data : list (list A)) : list (list A) :=
    map (fun p => nth p data []) rows.
  Definition vsum (l : list A) : A := fold_left add l zero.
  Definition col (X : list (list A)) (j : nat) : list A := map (fun r => nth j r zero) X.
  Definition mean_vec (d : nat) (X : list (list A)) : list A :=
    map (fun j => div (vsum (col X j)) (of_nat (length X))) (seq 0 d).
  (* the divisor: n for the biased estimator (and for a single point), n - 1 otherwise *)
  Definition divisor (biased : bool) (n : nat) : nat := if (biased || Nat.ltb n 2)%bool then n else n - 1.
  Definition scatter (d : nat) (X : list (list A)) (j k : nat) : A :=
    let m := mean_vec d X in
    vsum (map (fun r => mul (sub (nth j r zero) (nth j m zero)) (sub (nth k r zero) (nth k m zero))) X).
  Definition cov (biased : bool) (d : nat) (X : list (list A)) : list (list A) :=
    map (fun j => map (fun k => div (scatter d X j k) (of_nat (divisor biased (length X)))) (seq 0 d)) (seq 0 d).
End S.
