(* Effect summaries (C19) of every function of fast_ticc that contains an in-place write site.
   One straight-line summary per function; variable 0.. are the parameters.  The inventory of
   write sites regenerated from the source on every run (vcheck/inventory.py) must match the
   committed inventory these summaries were written against. *)
From Coq Require Import List Arith.
Import ListNotations.
From Ticc Require Import Model.Effects.

(* stack_training_data(data=0, W): out = np.zeros (1); out[i, a:b] = data[i+j, :]  (write to 1) *)
Definition sum_stack : list effect := [EAlloc 1; EWrite 1 1].
(* label_switching_cost_template(lengths=0): endpoints = list(accumulate) (1); endpoints.pop(); template = np.ones (2); template[..] = 0 *)
Definition sum_template : list effect := [EAlloc 1; EWrite 1 1; EAlloc 2; EWrite 2 0].
(* ticc_joint_labels(data_series=0, ..., beta=4): data_series = list(data_series) (copy); stacking (fresh);
   label_switching_cost = beta * template (fresh 5) *)
Definition sum_joint_front : list effect := [ECopy 0 0; EAlloc 1; EWrite 1 1; EAlloc 5].
(* reinflate_matrix(v=0): square = np.zeros (1); square[idx] = v; full = (U + U.T) - diag (fresh 2) *)
Definition sum_reinflate : list effect := [EAlloc 1; EWrite 1 1; EAlloc 2].
(* _zero_small_elements(array=0, eps, copy): the only call passes a matrix freshly built by reinflate_matrix
   (fresh 1) with copy=False; with copy=True it works on np.copy *)
Definition sum_zero_small_call : list effect := [EAlloc 1; EView 2 1; EWrite 2 0].
Definition sum_zero_small_copy : list effect := [ECopy 1 0; EWrite 1 0].
(* admm_update_z(args, u=0, x=1): theta_plus_u = x + u (fresh 2); z_update = np.zeros (3); z_update[idx] = v *)
Definition sum_z_update : list effect := [EAlloc 2; EAlloc 3; EWrite 3 1].
(* run_admm_optimization(args, S=0): x, z, u fresh; args.rho rebinding is on the freshly built ADMMArguments (4) *)
Definition sum_admm : list effect := [EAlloc 1; EAlloc 2; EAlloc 3; EAlloc 4; EWrite 4 1; EAlloc 5; EWrite 5 1].
(* assign_point_cluster_labels(cost=0, beta=1): future, path_matrix fresh; beta = np.zeros + beta (fresh);
   writes go to future / path_matrix / path *)
Definition sum_kernel : list effect := [EAlloc 2; EAlloc 3; EAlloc 4; EWrite 3 1; EWrite 2 1; EAlloc 5; EWrite 5 1].
(* all_points_all_clusters_log_likelihood_fast: result = np.zeros; result[p, c] = ... *)
Definition sum_ll_table : list effect := [EAlloc 1; EWrite 1 1].
(* split_joint_labels / pad_missing_labels: new lists only *)
Definition sum_split_pad : list effect := [EAlloc 1; EWrite 1 1; EAlloc 2].
(* main loop result assembly: labels = [-1]*T (fresh); labels[i] = ...; model-state objects are library-owned *)
Definition sum_main_loop : list effect := [EAlloc 1; EWrite 1 1; EAlloc 2; EWrite 2 1].

Definition all_summaries : list (list effect) :=
  [sum_stack; sum_template; sum_joint_front; sum_reinflate; sum_zero_small_call; sum_zero_small_copy;
   sum_z_update; sum_admm; sum_kernel; sum_ll_table; sum_split_pad; sum_main_loop].

