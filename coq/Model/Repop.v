(* Model of cluster_maintenance.repopulate_empty_clusters and its helpers
   (_find_ranked_donor_cluster_ids, _find_point_donor, _move_random_points).
   No proofs in this file.

   labels : list nat          cluster id of every point (all < K)
   spread : nat -> nat        order-preserving rank of ||computed_covariance|| per cluster
   order  : list nat          iteration order of the Python set of under-populated clusters
   draws  : list (list nat)   one random.sample(range(size of donor), m) per refill *)
From Coq Require Import List Arith Bool.
Import ListNotations.

Definition size (labels : list nat) (k : nat) : nat := count_occ Nat.eq_dec labels k.

(* member_points of cluster k: the sorted list of point ids labelled k *)
Definition members (labels : list nat) (k : nat) : list nat :=
  map fst (filter (fun ip => Nat.eqb (snd ip) k) (combine (seq 0 (length labels)) labels)).

(* clusters that get repopulated: size < 2 *)
Definition under (K : nat) (labels : list nat) : list nat :=
  filter (fun k => Nat.ltb (size labels k) 2) (seq 0 K).

(* sorted(potential, key=spread, reverse=True): stable, so equal spreads keep ascending id *)
Fixpoint insert_desc (spread : nat -> nat) (x : nat) (l : list nat) : list nat :=
  match l with
  | [] => [x]
  | y :: r => if Nat.leb (spread y) (spread x) then x :: y :: r else y :: insert_desc spread x r
  end.
Definition sort_desc (spread : nat -> nat) (l : list nat) : list nat :=
  fold_right (insert_desc spread) [] l.

Definition rank_donors (K m : nat) (spread : nat -> nat) (labels : list nat) : list nat :=
  sort_desc spread (filter (fun k => Nat.leb (2 * m) (size labels k)) (seq 0 K)).

(* _find_point_donor, INCLUDING the branch that pops the LAST element although
   the FIRST was tested (shown to be dead code by C08_dead_branch) *)
Fixpoint find_donor (fuel : nat) (m : nat) (labels : list nat) (rem : list nat) : option (nat * list nat) :=
  match fuel with
  | O => None
  | S fuel' =>
    match rem with
    | [] => None
    | d :: rest =>
      let s := size labels d in
      if Nat.leb (2 * m) s then
        if Nat.ltb s (3 * m) then Some (d, rest) else Some (d, rem)
      else find_donor fuel' m labels (removelast rem)
    end
  end.

(* the same without the dead branch *)
Definition find_donor_simple (m : nat) (labels : list nat) (rem : list nat) : option (nat * list nat) :=
  match rem with
  | [] => None
  | d :: rest => if Nat.ltb (size labels d) (3 * m) then Some (d, rest) else Some (d, rem)
  end.

(* _move_random_points: relabel the members of donor at positions idxs (indices
   into its member list) to recipient *)
Definition move (labels : list nat) (donor recipient : nat) (idxs : list nat) : list nat :=
  let mem := members labels donor in
  let chosen := map (fun i => nth i mem 0) idxs in
  map (fun ip => if existsb (Nat.eqb (fst ip)) chosen then recipient else snd ip)
      (combine (seq 0 (length labels)) labels).

Fixpoint refill (m : nat) (labels : list nat) (rem : list nat) (order : list nat)
         (draws : list (list nat)) : option (list nat) :=
  match order with
  | [] => Some labels
  | e :: order' =>
    match find_donor (S (length rem)) m labels rem with
    | None => None
    | Some (d, rem') => refill m (move labels d e (hd [] draws)) rem' order' (tl draws)
    end
  end.

(* None = RuntimeError("Unable to find a donor cluster ...") *)
Definition repopulate (K m : nat) (spread : nat -> nat) (order : list nat)
           (draws : list (list nat)) (labels : list nat) : option (list nat) :=
  match order with
  | [] => Some labels
  | _ => refill m labels (rank_donors K m spread labels) order draws
  end.

(* ---- specification vocabulary ---- *)
(* how many refills the donors can serve: sum over clusters with >= 2m points of floor(size/m) - 1 *)
Definition capacity (K m : nat) (labels : list nat) : nat :=
  list_sum (map (fun k => if Nat.leb (2 * m) (size labels k) then size labels k / m - 1 else 0) (seq 0 K)).

(* a draw is m distinct positions below the donor's current size *)
Definition draw_ok (m sz : nat) (d : list nat) : Prop :=
  length d = m /\ NoDup d /\ Forall (fun i => i < sz) d.

(* validity of the draws along the execution (mirrors refill) *)
Fixpoint draws_valid (m : nat) (labels : list nat) (rem : list nat) (order : list nat)
         (draws : list (list nat)) : Prop :=
  match order with
  | [] => True
  | e :: order' =>
    match find_donor (S (length rem)) m labels rem with
    | None => True
    | Some (d, rem') =>
      draw_ok m (size labels d) (hd [] draws) /\
      draws_valid m (move labels d e (hd [] draws)) rem' order' (tl draws)
    end
  end.

(* the sequence of (donor, recipient, labels before the move, remaining donors before) *)
Fixpoint refill_trace (m : nat) (labels : list nat) (rem : list nat) (order : list nat)
         (draws : list (list nat)) : list (nat * nat * list nat * list nat) :=
  match order with
  | [] => []
  | e :: order' =>
    match find_donor (S (length rem)) m labels rem with
    | None => []
    | Some (d, rem') =>
      (d, e, labels, rem) :: refill_trace m (move labels d e (hd [] draws)) rem' order' (tl draws)
    end
  end.

(* refill with the simplified donor search *)
Fixpoint refill_simple (m : nat) (labels : list nat) (rem : list nat) (order : list nat)
         (draws : list (list nat)) : option (list nat) :=
  match order with
  | [] => Some labels
  | e :: order' =>
    match find_donor_simple m labels rem with
    | None => None
    | Some (d, rem') => refill_simple m (move labels d e (hd [] draws)) rem' order' (tl draws)
    end
  end.
