(* A clean functional model of the control flow of admm/solver.py's run_admm_optimization, in the call-log monad of
   Gen/PySkel.v, with every callee (the X / Z / U updates, the convergence test, the rho callback, arithmetic on opaque
   values) uninterpreted.  It is what the translated source (Gen/G_solver_loop.v, regenerated from /repo on every run) is
   proved equal to in Proofs/GenEquivSL.v; the claims about the loop - how many iterations, which iterate is returned,
   when it may stop early - are proved on this model.  No proofs in this file. *)
From Coq Require Import String.
From Coq Require Import ZArith List Bool.
From Ticc Require Import Gen.PyRt Gen.PySkel.
Import ListNotations.
Local Open Scope Z_scope.

Section AdmmV.
  Variable V : Type.
  Variable vnone : V.
  Variable vint : Z -> V.
  Variable as_int : V -> option Z.
  Variable getattr : V -> string -> V.
  Variable truthy : V -> bool.
  Variable oracle : list (event V) -> string -> list V -> res V.

  Definition f_x := "admm_update_x"%string.
  Definition f_z := "admm_update_z"%string.
  Definition f_u := "admm_update_u"%string.
  Definition f_chk := "check_convergence"%string.

  (* x = admm_update_x(args, u, z, S); z = admm_update_z(args, u, x); u = admm_update_u(u, x, z) *)
  Definition iterV (S args u z : V) : M V (V * V * V) :=
    x1 <<- call oracle f_x [args; u; z; S] ;;
    z1 <<- call oracle f_z [args; u; x1] ;;
    u1 <<- call oracle f_u [u; x1; z1] ;;
    mret (x1, z1, u1).

  (* if args.rho_update: new_rho = args.rho_update(args.rho, rp, tp, rd, td); scale = args.rho / new_rho;
                         args.rho = new_rho; u = scale * u *)
  Definition adaptV (args u chk : V) : M V (V * V) :=
    if truthy (getattr args "rho_update") then
      new_rho <<- call oracle "method:rho_update"
                  [args; getattr args "rho"; getattr chk "[1]"; getattr chk "[2]"; getattr chk "[3]"; getattr chk "[4]"] ;;
      scale <<- call oracle "op:/" [getattr args "rho"; new_rho] ;;
      args' <<- call oracle "setattr:rho" [args; new_rho] ;;
      u' <<- call oracle "op:*" [scale; u] ;;
      mret (args', u')
    else mret (args, u).

  (* at most n more iterations, the next one being iteration `it`; x is the current iterate *)
  Fixpoint itersV (S : V) (n : nat) (it : Z) (args x z u : V) : M V V :=
    match n with
    | O => mret x
    | Datatypes.S n' =>
      xzu <<- iterV S args u z ;;
      let '(x1, z1, u1) := xzu in
      if it >? 0 then
        chk <<- call oracle f_chk [args; u1; x1; z1; z] ;;
        if truthy (getattr chk "[0]") then mret x1
        else au <<- adaptV args u1 chk ;;
             itersV S n' (it + 1) (fst au) x1 z1 (snd au)
      else itersV S n' (it + 1) args x1 z1 u1
    end.

  Definition admmV (args S : V) : M V V :=
    m <<- call oracle "op:*" [getattr args "window_size"; getattr args "num_data_series"] ;;
    m1 <<- call oracle "op:+" [m; vint 1] ;;
    mm <<- call oracle "op:*" [m; m1] ;;
    h <<- call oracle "op:/" [mm; vint 2] ;;
    size <<- call oracle "int" [h] ;;
    x0 <<- call oracle "np.zeros" [size] ;;
    z0 <<- call oracle "np.zeros" [size] ;;
    u0 <<- call oracle "np.zeros" [size] ;;
    lim <<- need_int as_int (getattr args "max_iterations") ;;
    itersV S (Z.to_nat lim) 0 args x0 z0 u0.

  (* ---- observations on a log ---- *)
  Definition is_fn (f : string) (e : event V) : bool := String.eqb (ev_fn e) f.
  Definition count_fn (f : string) (log : list (event V)) : nat := length (filter (is_fn f) log).
End AdmmV.
