(* Model of fast_ticc/data_preparation.py: stack_training_data,
   stack_training_data_multiple_series, label_switching_cost_template,
   pad_missing_labels, split_joint_labels.

   Everything is polymorphic in the element type: the functions only copy
   elements, so whatever holds here holds bit for bit for NaN payloads, signed
   zeros and infinities.  No proofs in this file. *)
From Coq Require Import List Arith ZArith.
Import ListNotations.

Section Stack.
  Context {A : Type}.

  (* stacked row i: rows i .. i+W-1 of the series laid side by side *)
  Definition window (W : nat) (data : list (list A)) (i : nat) : list A :=
    concat (map (fun j => nth (i + j) data []) (seq 0 W)).

  (* num_full_windows = T - W + 1 (the code requires T >= W - 1) *)
  Definition num_windows (W T : nat) : nat := T + 1 - W.

  Definition stack (W : nat) (data : list (list A)) : list (list A) :=
    map (window W data) (seq 0 (num_windows W (length data))).

  Definition stack_multi (W : nat) (series : list (list (list A))) : list (list A) :=
    concat (map (stack W) series).

  (* split_joint_labels: consecutive chunks of the given lengths *)
  Fixpoint split_by (lens : list nat) (l : list A) : list (list A) :=
    match lens with
    | [] => []
    | n :: lens' => firstn n l :: split_by lens' (skipn n l)
    end.

  (* pad_missing_labels: front = int((W-1)/2), back = (W-1) - front *)
  Definition pad_front (W : nat) : nat := (W - 1) / 2.
  Definition pad_back (W : nat) : nat := (W - 1) - pad_front W.
  Definition pad (fill : A) (W : nat) (l : list A) : list A :=
    repeat fill (pad_front W) ++ l ++ repeat fill (pad_back W).
End Stack.

(* label_switching_cost_template (tree with the boundary fix):
   ones everywhere, zero at index  e_j - 1  for every series j but the last,
   e_j = len_0 + ... + len_j.  [true] stands for 1.0, [false] for 0.0.
   All stacked lengths are >= 1 in every call the front end makes. *)
Fixpoint boundary_pairs_from (acc : nat) (lens : list nat) : list nat :=
  match lens with
  | [] => []
  | [_] => []
  | n :: rest => (acc + n - 1) :: boundary_pairs_from (acc + n) rest
  end.
Definition boundary_pairs (lens : list nat) : list nat := boundary_pairs_from 0 lens.

Definition template (lens : list nat) : list bool :=
  map (fun i => negb (existsb (Nat.eqb i) (boundary_pairs lens)))
      (seq 0 (list_sum lens)).

(* the tree before the fix zeroed index e_j (the pair AFTER the boundary) *)
Fixpoint legacy_zeros_from (acc : nat) (lens : list nat) : list nat :=
  match lens with
  | [] => []
  | [_] => []
  | n :: rest => (acc + n) :: legacy_zeros_from (acc + n) rest
  end.
Definition template_legacy (lens : list nat) : list bool :=
  map (fun i => negb (existsb (Nat.eqb i) (legacy_zeros_from 0 lens)))
      (seq 0 (list_sum lens)).

(* front ends, as far as labels are concerned.  [labels] is what the main loop
   returns for the stacked rows. *)
Definition front_single_labels (W : nat) (labels : list Z) : list Z :=
  pad (-1)%Z W labels.
Definition front_joint_labels (W : nat) (series_lengths : list nat) (labels : list Z)
  : list (list Z) :=
  map (pad (-1)%Z W) (split_by (map (num_windows W) series_lengths) labels).
