(* Models of likelihood.py (the log-likelihood formula and the table plumbing),
   of the result accounting in main_loop.py (_compute_log_likelihood_by_cluster,
   flattening, sums / means / medians) and of cluster_metrics.py (BIC run
   counting and assembly, Calinski-Harabasz as implemented and as defined).
   Generic in the carrier where floats are involved.  No proofs in this file. *)
From Coq Require Import List Arith Bool.
Import ListNotations.
From Ticc Require Import Model.Repop Model.Viterbi.

Section Num.
  Context {A : Type}.
  Variables (zero one half two : A) (add sub mul div : A -> A -> A) (ltb : A -> A -> bool).
  Variable of_nat : nat -> A.

  (* point_log_likelihood_fast:  0.5 * (log_det - quad - nw_log_2pi),  nw_log_2pi = nw * log(2 pi) *)
  Definition nw_log_2pi (nw : nat) (log2pi : A) : A := mul (of_nat nw) log2pi.
  Definition ll (logdet quad nwl : A) : A := mul half (sub (sub logdet quad) nwl).

  (* all_points_all_clusters_log_likelihood_fast: cell (p, c) uses point p and exactly cluster c's
     log-det and quadratic form  quad p c = (x_p - mu_c)^T Theta_c (x_p - mu_c)  (oracle) *)
  Definition ll_table (T K nw : nat) (log2pi : A) (logdet : nat -> A) (quad : nat -> nat -> A) : list (list A) :=
    map (fun p => map (fun c => ll (logdet c) (quad p c) (nw_log_2pi nw log2pi)) (seq 0 K)) (seq 0 T).

  (* _compute_log_likelihood_by_cluster: per cluster, the values of its points in point order *)
  Definition buckets (K : nat) (labels : list nat) (val : nat -> A) : list (list A) :=
    map (fun k => map val (members labels k)) (seq 0 K).
  Definition flatten (bs : list (list A)) : list A := concat bs.

  (* sequential sum from 0 (the exact-field reading of np.sum); np.mean = sum / n *)
  Definition sum (l : list A) : A := fold_left add l zero.
  Definition mean (l : list A) : A := div (sum l) (of_nat (length l)).
  (* per-cluster aggregate with the empty-cluster default 0 *)
  Definition agg0 (f : list A -> A) (l : list A) : A := match l with [] => zero | _ => f l end.

  (* ---- BIC ---- *)
  (* cluster_params[k] = number of entries of the MRF with |x| > 2e-5 *)
  Definition absA (x : A) : A := if ltb x zero then sub zero x else x.
  Definition nnz (threshold : A) (theta : list A) : nat :=
    length (filter (fun x => ltb threshold (absA x)) theta).
  (* the loop: last = -1; for label in labels: if label != last: P += params[label]; last = label *)
  Fixpoint run_params_from (last : option nat) (params : nat -> nat) (labels : list nat) : nat :=
    match labels with
    | [] => 0
    | l :: r =>
      (match last with
       | Some x => if Nat.eqb x l then 0 else params l
       | None => params l
       end) + run_params_from (Some l) params r
    end.
  Definition run_params := run_params_from None.
  (* maximal runs of equal consecutive labels *)
  Fixpoint runs (labels : list nat) : list nat :=
    match labels with
    | [] => []
    | l :: r => match r with
                | [] => [l]
                | l' :: _ => if Nat.eqb l l' then runs r else l :: runs r
                end
    end.
  (* mod_lle = 0; for k: mod_lle += logdet_k - trace_k ;  bic = P * log(T) - 2 * mod_lle *)
  Definition mod_lle (lds trs : list A) : A := fold_left add (map2 sub lds trs) zero.
  Definition bic (P : nat) (lnT : A) (lds trs : list A) : A :=
    sub (mul (of_nat P) lnT) (mul two (mod_lle lds trs)).

  (* ---- Calinski-Harabasz ----
     data : rows (windows); mu k : stored mean of cluster k; mem k : members of cluster k *)
  Definition dot (u v : list A) : A := fold_left add (map2 mul u v) zero.
  Definition vsub (u v : list A) : list A := map2 sub u v.
  Definition sq (u : list A) : A := dot u u.
  Definition row (data : list (list A)) (p : nat) : list A := nth p data [].
  (* as implemented: centre = np.mean(stacked_training_data), ONE scalar for all columns *)
  Definition grand_scalar (data : list (list A)) : A :=
    div (sum (concat data)) (of_nat (length (concat data))).
  Definition ch_between (K : nat) (mems : nat -> list nat) (mu : nat -> list A) (centre : list A) : A :=
    sum (map (fun k => mul (of_nat (length (mems k))) (sq (vsub (mu k) centre))) (seq 0 K)).
  Definition ch_within (K : nat) (data : list (list A)) (mems : nat -> list nat) (mu : nat -> list A) : A :=
    sum (map (fun k => sum (map (fun p => sq (vsub (row data p) (mu k))) (mems k))) (seq 0 K)).
  Definition ch_ratio (T K : nat) (B Wd : A) : A :=
    mul (div B Wd) (div (of_nat (T - K)) (of_nat (K - 1))).
  Definition ch_impl (K : nat) (data : list (list A)) (mems : nat -> list nat) (mu : nat -> list A) : A :=
    let d := length (hd [] data) in
    ch_ratio (length data) K (ch_between K mems mu (repeat (grand_scalar data) d)) (ch_within K data mems mu).
  (* as defined: centre = per-column centroid of all windows *)
  Definition col_mean (data : list (list A)) (j : nat) : A :=
    div (sum (map (fun r => nth j r zero) data)) (of_nat (length data)).
  Definition centroid (data : list (list A)) : list A :=
    map (col_mean data) (seq 0 (length (hd [] data))).
  Definition ch_def (K : nat) (data : list (list A)) (mems : nat -> list nat) (mu : nat -> list A) : A :=
    ch_ratio (length data) K (ch_between K mems mu (centroid data)) (ch_within K data mems mu).
  (* member mean of a cluster *)
  Definition member_mean (data : list (list A)) (mem : list nat) : list A :=
    map (fun j => div (sum (map (fun p => nth j (row data p) zero) mem)) (of_nat (length mem)))
        (seq 0 (length (hd [] data))).
End Num.
