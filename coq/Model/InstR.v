(* Carrier instance: the real numbers (for the theorems). *)
From Coq Require Import Reals.
Definition Rltb (x y : R) : bool := if Rlt_dec x y then true else false.
Definition Rleb (x y : R) : bool := if Rle_dec x y then true else false.
