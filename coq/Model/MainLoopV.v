(* A clean functional model of the control flow of main_loop.fit_stacked_data (up to the closing of the
   task pool), in the call-log monad of Gen/PySkel.v, with every callee uninterpreted.  It is what the
   translated source (Gen/G_main_loop.v, regenerated from /repo on every run) is proved equal to in
   Proofs/GenEquivML.v; the C09 / C20 claims about the ORDER of calls are then proved on this model.
   No proofs in this file. *)
From Coq Require Import String.
From Coq Require Import ZArith List Bool.
From Ticc Require Import Gen.PyRt Gen.PySkel.
Import ListNotations.
Local Open Scope Z_scope.

Section LoopV.
  Variable V : Type.
  Variable vnone : V.
  Variable vint : Z -> V.
  Variable as_int : V -> option Z.
  Variable veq : V -> V -> bool.
  Variable getattr : V -> string -> V.
  Variable oracle : list (event V) -> string -> list V -> res V.

  Definition f_repop := "cluster_maintenance.repopulate_empty_clusters"%string.
  Definition f_stats := "cluster_maintenance.update_all_cluster_statistics"%string.
  Definition f_opt := "graphical_lasso.optimize_markov_random_fields"%string.
  Definition f_label := "cluster_label_assignment.predict_cluster_labels"%string.
  Definition f_copy := "copy.copy"%string.
  Definition f_pool := "_init_task_pool"%string.
  Definition f_terminate := "method:terminate"%string.
  Definition f_join := "method:join"%string.
  Definition f_close := "method:close"%string.

  (* one round: (repopulate if i > 0) -> statistics -> optimise -> relabel *)
  Definition roundV (data pool : V) (i : Z) (st : V) : M V V :=
    st1 <<- (if i >? 0 then call oracle f_repop [st] else mret st) ;;
    st2 <<- call oracle f_stats [st1; data] ;;
    st3 <<- call oracle f_opt [st2; data; pool] ;;
    call oracle f_label [st3; data].

  (* at most n more rounds, the next one being round i; stop when the new labelling equals the previous one *)
  Fixpoint roundsV (data pool : V) (n : nat) (i : Z) (st prev : V) : M V (V * V) :=
    match n with
    | O => mret (st, prev)
    | S n' =>
      st4 <<- roundV data pool i st ;;
      if veq prev (getattr st4 "point_labels") then mret (st4, prev)
      else p <<- call oracle f_copy [getattr st4 "point_labels"] ;;
           roundsV data pool n' (i + 1) st4 p
    end.

  Definition fitV (user_args data : V) : M V V :=
    lim <<- need_int as_int (getattr user_args "iteration_limit") ;;
    if lim >? 0 then
      st0 <<- call oracle "model_state.ModelState.empty_model" [user_args; data] ;;
      l0 <<- call oracle "cluster_label_assignment.build_initial_clusters" [getattr user_args "num_clusters"; data] ;;
      st <<- call oracle "setattr:point_labels" [st0; l0] ;;
      _ <<- call oracle "method:print" [getattr st "arguments"] ;;
      pool <<- call oracle f_pool [getattr (getattr st "arguments") "num_processors"] ;;
      sp <<- try_reraise
               (lim2 <<- need_int as_int (getattr (getattr st "arguments") "iteration_limit") ;;
                roundsV data pool (Z.to_nat lim2) 0 st vnone)
               (_ <<- call oracle f_terminate [pool] ;; _ <<- call oracle f_join [pool] ;; mret tt) ;;
      _ <<- call oracle f_close [pool] ;;
      _ <<- call oracle f_join [pool] ;;
      mret (fst sp)
    else mraise "AssertionError"%string.

  (* ---- observations on a log ---- *)
  Definition is_fn (f : string) (e : event V) : bool := String.eqb (ev_fn e) f.
  Definition count_fn (f : string) (log : list (event V)) : nat := length (filter (is_fn f) log).
  Definition fn_names (log : list (event V)) : list string := map (@ev_fn V) log.

  (* the phase calls of a log, as letters: r s o l  *)
  Definition phase_letter (e : event V) : option nat :=
    if is_fn f_repop e then Some 0%nat else if is_fn f_stats e then Some 1%nat
    else if is_fn f_opt e then Some 2%nat else if is_fn f_label e then Some 3%nat else None.
  Fixpoint phases (log : list (event V)) : list nat :=
    match log with
    | [] => []
    | e :: r => match phase_letter e with Some k => k :: phases r | None => phases r end
    end.
  (* accepted: (s o l) then ((r s o l))* , possibly cut short anywhere (a call may raise) *)
  Fixpoint phases_ok (first : bool) (expect : nat) (l : list nat) : bool :=
    match l with
    | [] => true
    | k :: r =>
      if Nat.eqb k expect then
        match expect with
        | 0%nat => phases_ok first 1%nat r
        | 1%nat => phases_ok first 2%nat r
        | 2%nat => phases_ok first 3%nat r
        | _ => phases_ok false 0%nat r
        end
      else false
    end.
End LoopV.
