(* Models for scheduling independence (C14, C15) and memoisation (C14).  No proofs here.

   Pool: tasks are indexed by submission order; workers complete them in ANY order; each
   completion stores (index, result) in a table; the gather step reads the table BY INDEX
   (graphical_lasso._retrieve_optimization_results zips clusters with their own task objects).

   Prange: the parallel likelihood loop writes cell (p, c) of a fresh table from immutable
   inputs; iterations may run in any order and any chunking. *)
From Coq Require Import List Arith Bool.
Import ListNotations.

Section Pool.
  Context {Arg Res : Type}.
  Variable f : Arg -> Res.                     (* the optimiser entry point: a function of its arguments *)

  Fixpoint lookup (tbl : list (nat * Res)) (i : nat) : option Res :=
    match tbl with
    | [] => None
    | (j, r) :: rest => if Nat.eqb i j then Some r else lookup rest i
    end.
  (* completing the tasks in the order given by the schedule *)
  Definition complete (args : list Arg) (sched : list nat) (d : Arg) : list (nat * Res) :=
    map (fun i => (i, f (nth i args d))) sched.
  (* AsyncResult.get() of task i, in submission order *)
  Definition gather (n : nat) (tbl : list (nat * Res)) : list (option Res) :=
    map (lookup tbl) (seq 0 n).
  Definition run_pool (args : list Arg) (sched : list nat) (d : Arg) : list (option Res) :=
    gather (length args) (complete args sched d).
End Pool.

Section Prange.
  Context {Cell : Type}.
  Variable g : nat -> nat -> Cell.             (* value of cell (p, c): depends on immutable inputs only *)
  Variable K : nat.
  (* the table as a function; an iteration p writes row p *)
  Definition table := nat -> option (list Cell).
  Definition write_row (t : table) (p : nat) : table :=
    fun q => if Nat.eqb q p then Some (map (g p) (seq 0 K)) else t q.
  Definition run_iters (iters : list nat) : table := fold_left write_row iters (fun _ => None).
  Definition read_table (t : table) (T : nat) : list (option (list Cell)) := map t (seq 0 T).
End Prange.

Section Memo.
  Context {Key Val : Type}.
  Variable key_eqb : Key -> Key -> bool.
  Variable f : Key -> Val.                     (* the memoised function *)
  Fixpoint cache_lookup (c : list (Key * Val)) (k : Key) : option Val :=
    match c with
    | [] => None
    | (k', v) :: rest => if key_eqb k k' then Some v else cache_lookup rest k
    end.
  (* functools.cache *)
  Definition memo_call (c : list (Key * Val)) (k : Key) : Val * list (Key * Val) :=
    match cache_lookup c k with
    | Some v => (v, c)
    | None => (f k, (k, f k) :: c)
    end.
  (* every cached pair is (k, f k) *)
  Definition cache_ok (c : list (Key * Val)) : Prop := forall k v, In (k, v) c -> v = f k.
  Fixpoint memo_calls (c : list (Key * Val)) (ks : list Key) : list Val * list (Key * Val) :=
    match ks with
    | [] => ([], c)
    | k :: r => let '(v, c1) := memo_call c k in let '(vs, c2) := memo_calls c1 r in (v :: vs, c2)
    end.
End Memo.
