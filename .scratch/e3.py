import os
os.environ["NUMBA_DISABLE_JIT"]="1"
import numpy as np
from fast_ticc import admm
from fast_ticc.admm import solver
rng=np.random.default_rng(3)
N,W=2,4
A=rng.normal(size=(N*W,N*W)); S=A@A.T/ (N*W)
for lam in [0.11, 0.125, 0.3]:
    r1=admm.admm_optimize_theta(S, lam, W, N).theta
    r2=admm.admm_optimize_theta(S, np.full((N*W,N*W), lam), W, N).theta
    print(lam, np.array_equal(r1,r2), np.max(np.abs(r1-r2)))
    print([ (solver.compute_lambda_sum(lam,b,0,0,N,W).hex(), float(solver.compute_lambda_sum(np.full((N*W,N*W), lam),b,0,0,N,W)).hex()) for b in range(W)])
