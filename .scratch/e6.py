import os, sys, gc, time
os.environ["NUMBA_DISABLE_JIT"]="1"
import multiprocessing, numpy as np, random
import fast_ticc
from fast_ticc import admm, graphical_lasso
orig=admm.admm_optimize_theta
CALLS=[0]
def failing(*a, **k):
    raise ValueError("injected")
def gen(T,N,seed):
    rng=np.random.default_rng(seed); return rng.normal(size=(T,N))
X=gen(80,2,1)
for mp in ["", "1"]:
    os.environ["CUPCAKE_ENABLE_MULTIPROCESSING"]=mp
    admm.admm_optimize_theta=failing
    try:
        fast_ticc.ticc_labels(X, window_size=2, num_clusters=2, num_processors=3, min_cluster_size=3)
        print("returned!")
    except Exception as e:
        print("raised", type(e).__name__, e, "children in handler:", len(multiprocessing.active_children()))
    print("children after handler:", len(multiprocessing.active_children()))
    gc.collect(); time.sleep(0.5)
    print("children after gc:", len(multiprocessing.active_children()))
    admm.admm_optimize_theta=orig
    np.random.seed(0)
    r=fast_ticc.ticc_labels(X, window_size=2, num_clusters=2, num_processors=3, min_cluster_size=3)
    print("clean ok", r.label_assignment_cost, "children:", len(multiprocessing.active_children()))
