import os, sys, math
mode=sys.argv[1]
if mode=="nojit": os.environ["NUMBA_DISABLE_JIT"]="1"
if mode=="absent": sys.modules['numba']=None
import numpy as np, random, warnings
import fast_ticc
from fast_ticc import admm, numba_guard
from fast_ticc.cluster_label_assignment import assign_point_cluster_labels as v
print("mode",mode,"numba available",numba_guard.NUMBA_AVAILABLE)
rng=np.random.default_rng(0)
# read-only inputs
C=rng.normal(size=(7,3)); C.setflags(write=False)
b=np.abs(rng.normal(size=7)); b.setflags(write=False)
try:
    print("viterbi ro:", v(C,b)[1], v(C,2.0)[1], v(np.asfortranarray(C),2)[1])
except Exception as e: print("viterbi ro FAIL", type(e).__name__, str(e)[:200])
S=np.cov(rng.normal(size=(30,4)).T); S.setflags(write=False)
L=np.full((4,4),0.11); L.setflags(write=False)
try:
    r=admm.admm_optimize_theta(S,L,2,2); print("admm ro ok", r.theta[:3])
    r=admm.admm_optimize_theta(S,0.11,2,2,rho=2.0,rho_update=lambda rho,rp,tp,rd,td: rho*2 if rp>10*rd else (rho/2 if rd>10*rp else rho)); print("admm rho_update ok", r.theta[:3])
except Exception as e: print("admm FAIL", type(e).__name__, str(e)[:200])
def gen(T,N,seed):
    r=np.random.default_rng(seed); return np.vstack([r.normal(size=(T//2,N)), r.normal(size=(T-T//2,N))*3+2])
for (N,W,K) in [(1,1,2),(1,3,2),(3,1,2),(2,2,3),(2,4,2)]:
    X=gen(90,N,1); X.setflags(write=False)
    np.random.seed(0); random.seed(0)
    try:
        with warnings.catch_warnings():
            warnings.simplefilter("ignore")
            import io, contextlib
            with contextlib.redirect_stdout(io.StringIO()):
                r=fast_ticc.ticc_labels(X, window_size=W, num_clusters=K, min_cluster_size=3, label_switching_cost=5, iteration_limit=15)
        print((N,W,K),"ok",len(r.point_labels), r.label_assignment_cost, [m.shape for m in r.markov_random_fields][:1])
    except Exception as e:
        print((N,W,K),"FAIL",type(e).__name__, str(e)[:300])
# joint, unequal
Xs=[gen(40,2,1),gen(55,2,2),gen(33,2,3)]
np.random.seed(0); random.seed(0)
import io, contextlib
with contextlib.redirect_stdout(io.StringIO()):
    r=fast_ticc.ticc_joint_labels(iter(Xs), window_size=3, num_clusters=2, min_cluster_size=3, label_switching_cost=5, iteration_limit=15)
print("joint", [len(l) for l in r.point_labels], r.label_assignment_cost)
