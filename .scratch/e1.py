import os
os.environ["NUMBA_DISABLE_JIT"]="1"
import numpy as np
from fast_ticc import admm
from fast_ticc import matrix_compression as mc
# C03: variance 1e9 singular
for var in [1.0, 1e4, 1e6, 1e8, 1e9, 1e12]:
    S = np.diag([var, 1.0])
    r = admm.admm_optimize_theta(S, 0.11, 1, 2)
    M = mc.reinflate_matrix(r.theta)
    print(var, M.tolist(), np.linalg.eigvalsh(M), np.log(np.linalg.det(M)))
# int lambda
try:
    admm.admm_optimize_theta(np.eye(2), 1, 1, 2)
    print("int lambda OK")
except Exception as e:
    print("int lambda:", type(e), e)
try:
    admm.admm_optimize_theta(np.eye(2), np.float32(0.5), 1, 2)
    print("f32 lambda OK")
except Exception as e:
    print("f32 lambda:", type(e), e)
try:
    r=admm.admm_optimize_theta(np.eye(2), np.float64(0.5), 1, 2); print("f64 ok", r.theta)
except Exception as e:
    print("f64 lambda:", type(e), e)
