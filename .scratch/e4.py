import os
os.environ["NUMBA_DISABLE_JIT"]="1"
import numpy as np
from fast_ticc import admm
from fast_ticc.admm import solver
bad=[]
for W in range(1,15):
  for lam in [0.11,0.3,0.7,1e-3,0.05]:
    M=np.full((W,W),lam)
    for b in range(W):
        a=solver.compute_lambda_sum(lam,b,0,0,1,W); c=float(solver.compute_lambda_sum(M,b,0,0,1,W))
        if a!=c: bad.append((W,lam,b,a.hex(),c.hex()))
print(len(bad), bad[:5])
rng=np.random.default_rng(3)
N,W=1,7
A=rng.normal(size=(N*W,N*W)); S=A@A.T/ (N*W)
for lam in [0.11,0.3,0.7,0.05]:
    r1=admm.admm_optimize_theta(S, lam, W, N).theta
    r2=admm.admm_optimize_theta(S, np.full((N*W,N*W), lam), W, N).theta
    print(lam, np.array_equal(r1,r2), np.max(np.abs(r1-r2)))
