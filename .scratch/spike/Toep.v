From Coq Require Import ZArith Lia List.
Open Scope Z_scope.
Ltac Zify.zify_post_hook ::= Z.to_euclidean_division_equations.

(* encode a class member; decode a position *)
Definition enc (N b r c i : Z) : Z * Z := (i * N + r, (b + i) * N + c).
Definition dec (N R C : Z) : Z * Z * Z * Z := (C / N - R / N, R mod N, C mod N, R / N).

Lemma dec_enc N b r c i : 0 < N -> 0 <= r < N -> 0 <= c < N -> 0 <= i -> 0 <= b ->
  dec N (fst (enc N b r c i)) (snd (enc N b r c i)) = (b, r, c, i).
Proof.
  intros HN Hr Hc Hi Hb. unfold dec, enc; cbn [fst snd].
  assert (E1 : (i * N + r) / N = i) by (rewrite Z.div_add_l by lia; rewrite Z.div_small by lia; lia).
  assert (E2 : ((b + i) * N + c) / N = b + i) by (rewrite Z.div_add_l by lia; rewrite Z.div_small by lia; lia).
  assert (E3 : (i * N + r) mod N = r) by (rewrite Z.add_comm, Z.mod_add by lia; apply Z.mod_small; lia).
  assert (E4 : ((b + i) * N + c) mod N = c) by (rewrite Z.add_comm, Z.mod_add by lia; apply Z.mod_small; lia).
  rewrite E1, E2, E3, E4. replace (b + i - i) with b by lia. reflexivity.
Qed.

Lemma enc_dec N W R C : 0 < N -> 0 < W -> 0 <= R -> R <= C -> C < N * W ->
  let '(b, r, c, i) := dec N R C in
  enc N b r c i = (R, C) /\ 0 <= b < W /\ 0 <= r < N /\ 0 <= c < N /\ 0 <= i < W - b /\ (b = 0 -> r <= c).
Proof.
  intros HN HW HR HRC HC. unfold dec, enc.
  pose proof (Z.div_mod R N ltac:(lia)) as ER. pose proof (Z.div_mod C N ltac:(lia)) as EC.
  pose proof (Z.mod_pos_bound R N HN) as BR. pose proof (Z.mod_pos_bound C N HN) as BC.
  assert (Hq : R / N <= C / N) by (apply Z.div_le_mono; lia).
  assert (HqC : C / N < W) by (apply Z.div_lt_upper_bound; lia).
  assert (HqR : 0 <= R / N) by (apply Z.div_pos; lia).
  repeat split; try lia.
  all: try (f_equal; nia).
  all: try (intros Hb; assert (C / N = R / N) by lia; nia).
Qed.

(* upper triangle membership of encoded positions *)
Lemma enc_upper N W b r c i : 0 < N -> 0 <= b < W -> 0 <= r < N -> 0 <= c < N -> 0 <= i < W - b -> (b = 0 -> r <= c) ->
  0 <= fst (enc N b r c i) <= snd (enc N b r c i) /\ snd (enc N b r c i) < N * W.
Proof. intros. unfold enc; cbn [fst snd]. nia. Qed.

(* closed-form compressed index equals rank *)
Definition tri_index (n r c : Z) : Z := n * (r + 1) - r * (r + 1) / 2 - ((n - 1 - c) + 1).
Definition rank (n r c : Z) : Z := r * n - r * (r - 1) / 2 + (c - r).
Lemma tri_index_rank n r c : 0 <= r -> tri_index n r c = rank n r c.
Proof. intros. unfold tri_index, rank. lia. Qed.
