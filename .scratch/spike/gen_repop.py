import os, sys, random, itertools
os.environ["NUMBA_DISABLE_JIT"]="1"
import numpy as np
from fast_ticc.containers import arguments, model_state
from fast_ticc import cluster_maintenance as cm
rng=random.Random(int(sys.argv[1])); n=int(sys.argv[2])
draws=[]
orig=random.sample
def rec(pop,k):
    r=orig(pop,k); draws.append(list(r)); return r
cm.random.sample=rec
cases=[];exp=[]
def L(xs): return "["+"; ".join("%d%%nat"%x for x in xs)+"]"
for _ in range(n):
    K=rng.randint(1,6); m=rng.randint(1,3)
    sizes=[rng.choice([0,0,1,1,2,m,2*m-1,2*m,2*m+1,3*m-1,3*m,3*m+2,5*m]) for _ in range(K)]
    if sum(sizes)==0: sizes[0]=1
    labels=[]
    for k,s in enumerate(sizes): labels+=[k]*s
    rng.shuffle(labels)
    spreads=[rng.randint(0,3) for _ in range(K)]
    ua=arguments.UserArguments(sparsity_weight=None, iteration_limit=None, label_switching_cost=0, min_cluster_size=m, min_meaningful_covariance=0, num_clusters=K, num_processors=1, biased_covariance=False, window_size=1)
    ms=model_state.ModelState.empty_model(ua,None); ms.point_labels=list(labels)
    for k,c in enumerate(ms.clusters): c.computed_covariance=np.array([[float(spreads[k])]])
    order=list({k for k in range(K) if sizes[k]<2})
    draws.clear(); random.seed(rng.randint(0,10**9))
    try:
        out=cm.repopulate_empty_clusters(ms); res="Some "+L([int(x) for x in out.point_labels])
    except RuntimeError:
        res="None"
    cases.append("(%d%%nat, %d%%nat, %s, %s, [%s], %s)"%(K,m,L(spreads),L(order),"; ".join(L(d) for d in draws),L(labels)))
    exp.append(res)
open("cases_repop.v","w").write("""From Coq Require Import List Arith Bool.
Import ListNotations.
Require Import Repop.
Definition cases : list (nat*nat*list nat*list nat*list (list nat)*list nat) := [
%s].
Definition expected : list (option (list nat)) := [
%s].
Definition oeq (a b : option (list nat)) : bool := match a, b with
 | None, None => true | Some x, Some y => if list_eq_dec Nat.eq_dec x y then true else false | _, _ => false end.
Definition run (c : nat*nat*list nat*list nat*list (list nat)*list nat) :=
  let '(K,m,sp,order,draws,labels) := c in repopulate K m (fun k => nth k sp 0) order draws labels.
Definition bad := filter (fun ce => negb (oeq (run (fst ce)) (snd ce))) (combine cases expected).
Eval vm_compute in (length cases, length bad, hd_error bad).
"""%(";\n".join(cases),";\n".join(exp)))
