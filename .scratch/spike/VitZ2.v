From Coq Require Import List Arith ZArith Lia Bool.
Import ListNotations.
Require Import VitZ.
Open Scope Z_scope.

Lemma map2_length {B C D} (f : B -> C -> D) l1 l2 : length l1 = length l2 -> length (map2 f l1 l2) = length l1.
Proof. revert l2; induction l1 as [|x r IH]; intros [|y r2] H; simpl in *; try lia. f_equal. rewrite IH; lia. Qed.

Lemma map2_nth (f : Z -> Z -> Z) l1 l2 k : length l1 = length l2 -> (k < length l1)%nat ->
  nth k (map2 f l1 l2) 0 = f (nth k l1 0) (nth k l2 0).
Proof. revert l2 k; induction l1 as [|x r IH]; intros [|y r2] k H Hk; simpl in *; try lia.
  destruct k; [reflexivity|]. apply IH; lia. Qed.

Lemma split_map_fst {A B C} (f : A -> B * C) l : fst (split (map f l)) = map (fun x => fst (f x)) l.
Proof. induction l as [|x r IH]; simpl; [reflexivity|]. destruct (f x) eqn:E. destruct (split (map f r)) eqn:E2. simpl in *. rewrite IH. reflexivity. Qed.
Lemma split_map_snd {A B C} (f : A -> B * C) l : snd (split (map f l)) = map (fun x => snd (f x)) l.
Proof. induction l as [|x r IH]; simpl; [reflexivity|]. destruct (f x) eqn:E. destruct (split (map f r)) eqn:E2. simpl in *. rewrite IH. reflexivity. Qed.

Lemma nth_map_seq_Z (f : nat -> Z) n k : (k < n)%nat -> nth k (map f (seq 0 n)) 0 = f k.
Proof. intros H. rewrite (nth_indep _ 0 (f 0%nat)) by (rewrite map_length, seq_length; lia).
  rewrite map_nth. rewrite seq_nth by lia. reflexivity. Qed.
Lemma nth_map_seq_nat (f : nat -> nat) n k : (k < n)%nat -> nth k (map f (seq 0 n)) 0%nat = f k.
Proof. intros H. rewrite (nth_indep _ 0%nat (f 0%nat)) by (rewrite map_length, seq_length; lia).
  rewrite map_nth. rewrite seq_nth by lia. reflexivity. Qed.

(* one step *)
Lemma step_spec K beta fut cost f p :
  (0 < K)%nat -> 0 <= beta -> length fut = K -> length cost = K ->
  step beta fut cost = (f, p) ->
  length f = K /\ length p = K /\
  forall c, (c < K)%nat ->
    let V := fun c' => nth c' fut 0 + nth c' cost 0 in
    (nth c p 0 < K)%nat /\
    nth c f 0 = (if Nat.eqb c (nth c p 0%nat) then 0 else beta) + V (nth c p 0%nat) /\
    forall c', (c' < K)%nat -> nth c f 0 <= (if Nat.eqb c c' then 0 else beta) + V c'.
Proof.
  intros HK Hb Hf Hc Hs. unfold step in Hs.
  set (total := map2 (fun f c => f + c + beta) fut cost) in *.
  assert (Hlen : length total = K) by (unfold total; rewrite map2_length; lia).
  assert (Hne : total <> []) by (destruct total; simpl in *; [lia|congruence]).
  destruct (argmin_spec total Hne) as [Hg Hmin]. set (g := argmin total) in *.
  assert (Htot : forall k, (k < K)%nat -> nth k total 0 = nth k fut 0 + nth k cost 0 + beta).
  { intros k Hk. unfold total. rewrite map2_nth by lia. reflexivity. }
  rewrite Hlen in *.
  assert (Ef : f = map (fun c => fst (stepv beta total g c)) (seq 0 K)).
  { rewrite <- split_map_fst. rewrite Hs. reflexivity. }
  assert (Ep : p = map (fun c => snd (stepv beta total g c)) (seq 0 K)).
  { rewrite <- split_map_snd. rewrite Hs. reflexivity. }
  split; [subst f; rewrite map_length, seq_length; reflexivity|].
  split; [subst p; rewrite map_length, seq_length; reflexivity|].
  intros c Hc' V. subst f p. rewrite nth_map_seq_Z, nth_map_seq_nat by lia.
  unfold stepv. rewrite (Htot g Hg), (Htot c Hc').
  destruct (nth g fut 0 + nth g cost 0 + beta <? nth c fut 0 + nth c cost 0 + beta - beta) eqn:E; cbn [fst snd].
  - apply Z.ltb_lt in E. split; [exact Hg|]. split.
    + destruct (Nat.eqb_spec c g) as [->|Hn]; unfold V; lia.
    + intros c' Hc''. pose proof (Hmin c' Hc'') as Hm. rewrite (Htot g Hg), (Htot c' Hc'') in Hm.
      destruct (Nat.eqb_spec c c') as [->|Hn]; unfold V; lia.
  - apply Z.ltb_ge in E. split; [exact Hc'|]. split.
    + rewrite Nat.eqb_refl. unfold V. lia.
    + intros c' Hc''. pose proof (Hmin c' Hc'') as Hm. rewrite (Htot g Hg), (Htot c' Hc'') in Hm.
      destruct (Nat.eqb_spec c c') as [->|Hn]; unfold V; lia.
Qed.

Lemma repeat_nth0 K k : nth k (repeat 0 K) 0 = 0.
Proof. revert k; induction K; intros [|k]; simpl; auto. Qed.

(* the invariant *)
Lemma bw_inv K : (0 < K)%nat -> forall rows betas, rows <> [] -> wf_rows K rows -> Forall (fun b => 0 <= b) betas ->
  forall f P, bw K rows betas = (f, P) ->
  length f = K /\
  forall c, (c < K)%nat ->
    (length (follow c P) = length (tl rows) /\ wf_path K (follow c P) /\
     nth c f 0 = tcost c (tl rows) betas (follow c P)) /\
    forall q, length q = length (tl rows) -> wf_path K q -> nth c f 0 <= tcost c (tl rows) betas q.
Proof.
  intros HK. induction rows as [|r rest IH]; intros betas Hne Hwf Hb f P Hbw; [congruence|].
  cbn [bw] in Hbw. destruct rest as [|r' rest'].
  - inversion Hbw; subst. split; [apply repeat_length|]. intros c Hc. cbn [tl length follow].
    split; [split; [reflexivity|split;[constructor|rewrite repeat_nth0; reflexivity]]|].
    intros [|? ?] Hq _; simpl in *; [rewrite repeat_nth0; lia|lia].
  - destruct (bw K (r' :: rest') (tl betas)) as [f' P'] eqn:E'.
    destruct (step (hd 0 betas) f' r') as [f0 p0] eqn:Es. inversion Hbw; subst f0 P. clear Hbw.
    pose proof (Forall_inv_tail Hwf) as Hwf'. pose proof (Forall_inv Hwf') as Hr'. cbv beta in Hr'.
    assert (Hb' : Forall (fun b => 0 <= b) (tl betas)) by (destruct betas; simpl; [constructor|inversion Hb; assumption]).
    assert (Hb0 : 0 <= hd 0 betas) by (destruct betas; simpl; [lia|inversion Hb; assumption]).
    destruct (IH (tl betas) ltac:(congruence) Hwf' Hb' f' P' E') as [Hlf' IHc].
    destruct (step_spec K (hd 0 betas) f' r' f p0 HK Hb0 Hlf' Hr' Es) as [Hlf [Hlp Hstep]].
    split; [exact Hlf|]. intros c Hc. cbn [tl].
    destruct (Hstep c Hc) as [Hp [Heq Hle]]. cbn zeta in *.
    set (c1 := nth c p0 0%nat) in *.
    destruct (IHc c1 Hp) as [[Hfl [Hfw Hfe]] Hfle]. cbn [tl] in *.
    split.
    + cbn [follow]. fold c1. split; [simpl; rewrite Hfl; reflexivity|]. split; [constructor; assumption|].
      cbn [tcost]. rewrite <- Hfe. rewrite Heq. lia.
    + intros [|c' q'] Hq Hwq; [simpl in Hq; lia|]. pose proof (Forall_inv Hwq) as Hc''. pose proof (Forall_inv_tail Hwq) as Hwq'. cbv beta in Hc''.
      cbn [tcost]. specialize (Hle c' Hc''). destruct (IHc c' Hc'') as [_ Hfle']. cbn [tl] in Hfle'.
      specialize (Hfle' q' ltac:(simpl in Hq; lia) Hwq'). lia.
Qed.
