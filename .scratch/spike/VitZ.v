From Coq Require Import List Arith ZArith Lia Bool.
Import ListNotations.
Open Scope Z_scope.

(* ---- model specialised to Z (same text as generic) ---- *)
Fixpoint argmin_from (best : Z) (bi : nat) (i : nat) (l : list Z) : nat :=
  match l with
  | [] => bi
  | x :: r => if x <? best then argmin_from x i (S i) r else argmin_from best bi (S i) r
  end.
Definition argmin (l : list Z) : nat :=
  match l with [] => 0%nat | x :: r => argmin_from x 0 1 r end.

Fixpoint map2 {B C D} (f : B -> C -> D) (l1 : list B) (l2 : list C) : list D :=
  match l1, l2 with
  | x :: r1, y :: r2 => f x y :: map2 f r1 r2
  | _, _ => []
  end.

Definition stepv (beta : Z) (total : list Z) (g : nat) (c : nat) : Z * nat :=
  let tg := nth g total 0 in
  let tc := nth c total 0 in
  if tg <? tc - beta then (tg, g) else (tc - beta, c).

Definition step (beta : Z) (fut cost : list Z) : list Z * list nat :=
  let total := map2 (fun f c => f + c + beta) fut cost in
  let g := argmin total in
  split (map (stepv beta total g) (seq 0 (length total))).

Fixpoint bw (K : nat) (rows : list (list Z)) (betas : list Z) : list Z * list (list nat) :=
  match rows with
  | [] => ([], [])
  | r :: rest =>
    match rest with
    | [] => (repeat 0 K, [])
    | r' :: _ =>
      let '(f', P) := bw K rest (tl betas) in
      let '(f, p) := step (hd 0 betas) f' r' in
      (f, p :: P)
    end
  end.

Fixpoint follow (c : nat) (P : list (list nat)) : list nat :=
  match P with
  | [] => []
  | p :: P' => let c' := nth c p 0%nat in c' :: follow c' P'
  end.

(* tail cost: cost of suffix labelling q for rows `rest`, given previous label c and betas aligned so that hd betas prices (c, hd q) *)
Fixpoint tcost (c : nat) (rest : list (list Z)) (betas : list Z) (q : list nat) : Z :=
  match rest, q with
  | r :: rest', c' :: q' =>
      (if Nat.eqb c c' then 0 else hd 0 betas) + nth c' r 0 + tcost c' rest' (tl betas) q'
  | _, _ => 0
  end.

Definition wf_rows (K : nat) (rows : list (list Z)) := Forall (fun r => length r = K) rows.
Definition wf_path (K : nat) (q : list nat) := Forall (fun c => (c < K)%nat) q.

(* argmin facts *)
Lemma argmin_from_spec : forall l best bi i,
  (bi < i)%nat ->
  let a := argmin_from best bi i l in
  ((a = bi) \/ (i <= a < i + length l)%nat) /\
  (forall d, (a = bi -> d = best) -> (forall k, (a = i + k)%nat -> d = nth k l 0) ->
     d <= best /\ forall k, (k < length l)%nat -> d <= nth k l 0).
Proof.
  induction l as [|x r IH]; intros best bi i Hlt; cbn [argmin_from length].
  - split; [left; reflexivity|]. intros d Hb _. split; [rewrite Hb by reflexivity; lia| intros k Hk; simpl in Hk; lia].
  - destruct (x <? best) eqn:E.
    + apply Z.ltb_lt in E. specialize (IH x i (S i) ltac:(lia)). cbn zeta in IH. destruct IH as [IH1 IH2].
      split.
      * destruct IH1 as [->|H]; [right; simpl; lia| right; simpl; lia].
      * intros d Hb Hk.
        assert (Hd := IH2 d).
        destruct Hd as [Hd1 Hd2].
        { intros Ha. specialize (Hk 0%nat). rewrite Ha in Hk. specialize (Hk ltac:(lia)). simpl in Hk. exact Hk. }
        { intros k Ha. specialize (Hk (S k)). simpl in Hk. apply Hk. lia. }
        split; [lia|]. intros [|k] Hlen; simpl; [lia|]. apply Hd2. simpl in Hlen. lia.
    + apply Z.ltb_ge in E. specialize (IH best bi (S i) ltac:(lia)). cbn zeta in IH. destruct IH as [IH1 IH2].
      split.
      * destruct IH1 as [H|H]; [left; exact H| right; simpl; lia].
      * intros d Hb Hk.
        assert (Hd := IH2 d).
        destruct Hd as [Hd1 Hd2].
        { exact Hb. }
        { intros k Ha. specialize (Hk (S k)). simpl in Hk. apply Hk. lia. }
        split; [lia|]. intros [|k] Hlen; simpl; [lia|]. apply Hd2. simpl in Hlen. lia.
Qed.

Lemma argmin_spec : forall l, l <> [] ->
  (argmin l < length l)%nat /\ forall k, (k < length l)%nat -> nth (argmin l) l 0 <= nth k l 0.
Proof.
  intros [|x r] Hne; [congruence|]. unfold argmin.
  pose proof (argmin_from_spec r x 0%nat 1%nat ltac:(lia)) as H. cbn zeta in H.
  destruct H as [H1 H2]. split.
  - simpl. destruct H1 as [->|H]; lia.
  - set (a := argmin_from x 0 1 r) in *.
    destruct (H2 (nth a (x :: r) 0)) as [Ha Hb].
    + intros ->. reflexivity.
    + intros k ->. reflexivity.
    + intros [|k] Hk; simpl; [exact Ha|]. apply Hb. simpl in Hk. lia.
Qed.
