From Coq Require Import List Arith Bool Lia.
Import ListNotations.

(* labels : list nat (cluster id per point) *)
Definition size (labels : list nat) (k : nat) : nat := count_occ Nat.eq_dec labels k.
Definition members (labels : list nat) (k : nat) : list nat :=
  map fst (filter (fun ip => Nat.eqb (snd ip) k) (combine (seq 0 (length labels)) labels)).

(* stable insertion sort by decreasing spread (Python sorted(key, reverse=True) is stable) *)
Fixpoint insert_desc (spread : nat -> nat) (x : nat) (l : list nat) : list nat :=
  match l with
  | [] => [x]
  | y :: r => if Nat.leb (spread y) (spread x) then x :: y :: r else y :: insert_desc spread x r
  end.
(* insertion from the right keeps earlier-equal elements first *)
Definition sort_desc (spread : nat -> nat) (l : list nat) : list nat :=
  fold_right (insert_desc spread) [] l.

Definition rank_donors (K m : nat) (spread : nat -> nat) (labels : list nat) : list nat :=
  sort_desc spread (filter (fun k => Nat.leb (2 * m) (size labels k)) (seq 0 K)).

(* _find_point_donor, including the dead branch that pops the LAST element *)
Fixpoint find_donor (fuel : nat) (m : nat) (labels : list nat) (rem : list nat) : option (nat * list nat) :=
  match fuel with
  | O => None
  | S fuel' =>
    match rem with
    | [] => None
    | d :: rest =>
      let s := size labels d in
      if Nat.leb (2 * m) s then
        if Nat.ltb s (3 * m) then Some (d, rest) else Some (d, rem)
      else find_donor fuel' m labels (removelast rem)
    end
  end.

(* relabel the members of donor at positions idxs (indices into the member list) to recipient *)
Definition move (labels : list nat) (donor recipient : nat) (idxs : list nat) : list nat :=
  let mem := members labels donor in
  let chosen := map (fun i => nth i mem 0) idxs in
  map (fun ip => if existsb (Nat.eqb (fst ip)) chosen then recipient else snd ip)
      (combine (seq 0 (length labels)) labels).

Fixpoint refill (m : nat) (labels : list nat) (rem : list nat) (order : list nat) (draws : list (list nat)) : option (list nat) :=
  match order with
  | [] => Some labels
  | e :: order' =>
    match find_donor (S (length rem)) m labels rem with
    | None => None
    | Some (d, rem') =>
      refill m (move labels d e (hd [] draws)) rem' order' (tl draws)
    end
  end.

Definition repopulate (K m : nat) (spread : nat -> nat) (order : list nat) (draws : list (list nat)) (labels : list nat) : option (list nat) :=
  match order with
  | [] => Some labels
  | _ => refill m labels (rank_donors K m spread labels) order draws
  end.
