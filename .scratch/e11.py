import math, numpy as np
rng=np.random.default_rng(0)
bad=0; tot=0
for _ in range(20000):
    lam=float(rng.choice([rng.uniform(0,5), 10.0**rng.uniform(-6,2), rng.normal()]))
    n=int(rng.integers(1,40))
    a=math.fsum(np.full(n,lam)); b=lam*n
    tot+=1
    if a!=b: bad+=1
print("fsum vs mult mismatches", bad, "of", tot)
# numpy pairwise sum model
def pw(a):
    n=len(a)
    if n<8:
        r=0.0
        for x in a: r+=x   # numpy: res = 0.; res += a[i]  (actually starts at -0.0? check)
        return r
    elif n<=128:
        r=[a[j] for j in range(8)]
        i=8
        while i < n-(n%8):
            for j in range(8): r[j]+=a[i+j]
            i+=8
        res=((r[0]+r[1])+(r[2]+r[3]))+((r[4]+r[5])+(r[6]+r[7]))
        while i<n:
            res+=a[i]; i+=1
        return res
    else:
        n2=n//2; n2-=n2%8
        return pw(a[:n2])+pw(a[n2:])
bad=0
for _ in range(5000):
    n=int(rng.integers(1,400))
    a=rng.normal(size=n)*10.0**rng.integers(-5,5,size=n)
    if float(np.sum(a))!=pw([float(x) for x in a]): bad+=1
print("pairwise model mismatches", bad)
# fancy-indexed sum (as in z-update)
bad=0
for _ in range(2000):
    n=int(rng.integers(1,20)); big=rng.normal(size=300)
    idx=list(rng.integers(0,300,size=n))
    if float(np.sum(big[idx]))!=pw([float(x) for x in big[idx]]): bad+=1
print("fancy-index sum mismatches", bad)
print(np.sum(np.array([-0.0])), np.sum(np.array([-0.0,-0.0])))
