# Scratch (untracked): candidate repairs D1, D2, D3 validated against the
# whole suite during the design phase (31 passed).  Apply to a *copy* of /repo:
#   cd <copy> && python3 candidate_fixes_D1_D2_D3.py
p='src/fast_ticc/admm/solver.py'
s=open(p).read()
old="""    inner_term = np.diag(d + np.sqrt(determinant))
    theta_new = rho_scale * (q @ inner_term @ q.T)
"""
new="""    root = np.sqrt(determinant)
    # d + root cancels catastrophically for large negative d; use the
    # algebraically identical 4*rho / (root - d) there.
    safe_denominator = np.where(d < 0, root - d, 1.0)
    eigenvalues = np.where(d < 0, (4*rho) / safe_denominator, d + root)
    inner_term = np.diag(eigenvalues)
    theta_new = rho_scale * (q @ inner_term @ q.T)
"""
assert old in s
s=s.replace(old,new)
open(p,'w').write(s)

p='src/fast_ticc/graphical_lasso.py'
s=open(p).read()
old="""    updated_cluster.log_determinant = np.log(
        np.linalg.det(optimized_inverse_covariance)
    )
"""
new="""    updated_cluster.log_determinant = np.linalg.slogdet(
        optimized_inverse_covariance)[1]
"""
assert old in s; s=s.replace(old,new); open(p,'w').write(s)
p='src/fast_ticc/likelihood.py'
s=open(p).read()
old="""np.log(np.linalg.det(inverse_covariance))"""
new="""np.linalg.slogdet(inverse_covariance)[1]"""
assert old in s; s=s.replace(old,new); open(p,'w').write(s)
p='src/fast_ticc/cluster_metrics.py'
s=open(p).read()
old="""np.log(np.linalg.det(trained_inverse_covariance))"""
new="""np.linalg.slogdet(trained_inverse_covariance)[1]"""
assert old in s; s=s.replace(old,new); open(p,'w').write(s)
p='src/fast_ticc/main_loop.py'
s=open(p).read()
old="""    for next_cluster_array in cluster_log_likelihood:
        if len(next_cluster_array) == 0:
            next_cluster_array.append(0)

"""
assert old in s; s=s.replace(old,"")
old="""    cluster_log_likelihood_mean = np.array([
        np.mean(single_cluster_log_likelihood)
        for single_cluster_log_likelihood in cluster_log_likelihood
    ])
    cluster_log_likelihood_median = np.array([
        np.median(single_cluster_log_likelihood)
        for single_cluster_log_likelihood in cluster_log_likelihood
    ])
"""
new="""    cluster_log_likelihood_mean = np.array([
        np.mean(single_cluster_log_likelihood)
        if len(single_cluster_log_likelihood) > 0 else 0.0
        for single_cluster_log_likelihood in cluster_log_likelihood
    ])
    cluster_log_likelihood_median = np.array([
        np.median(single_cluster_log_likelihood)
        if len(single_cluster_log_likelihood) > 0 else 0.0
        for single_cluster_log_likelihood in cluster_log_likelihood
    ])
"""
assert old in s; s=s.replace(old,new); open(p,'w').write(s)
