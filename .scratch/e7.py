import os, sys, pickle, hashlib
os.environ["NUMBA_DISABLE_JIT"]="1"
import numpy as np, random
import fast_ticc
def gen(T,N,seed):
    rng=np.random.default_rng(seed); return rng.normal(size=(T,N))
def digest(r):
    h=hashlib.sha256()
    h.update(np.asarray(r.point_labels,dtype=np.int64).tobytes())
    for m in r.markov_random_fields: h.update(np.ascontiguousarray(m).tobytes())
    for f in [r.label_assignment_cost,r.bayesian_information_criterion,r.calinski_harabasz_index,r.overall_log_likelihood]:
        h.update(np.float64(f).tobytes())
    return h.hexdigest()[:16]
X=gen(150,2,1)
for mp,npr in [("",1),("1",1),("1",2),("1",3),("",3),("1",8)]:
    os.environ["CUPCAKE_ENABLE_MULTIPROCESSING"]=mp
    np.random.seed(0); random.seed(0)
    r=fast_ticc.ticc_labels(X, window_size=3, num_clusters=3, num_processors=npr, min_cluster_size=3, label_switching_cost=5)
    print(repr(mp),npr,digest(r), r.label_assignment_cost)
