import os
os.environ["NUMBA_DISABLE_JIT"]="1"
import numpy as np, warnings
from fast_ticc import admm
x=np.array([[1.0,2.0,3.0]])
with warnings.catch_warnings():
    warnings.simplefilter("ignore")
    C=np.cov(x.T); print(C)
try:
    r=admm.admm_optimize_theta(C, 0.11, 1, 3); print(r.theta)
except Exception as e: print(type(e), e)
C=np.cov(x.T,bias=True); print(C)
r=admm.admm_optimize_theta(C, 0.11, 1, 3); print(r.theta)
