import os, time
os.environ["NUMBA_DISABLE_JIT"]="1"
import numpy as np
from fast_ticc.admm import solver
from fast_ticc.containers import arguments
def run(S,lam,W,N,rho=1.0,maxit=1000):
    args=arguments.ADMMArguments(window_size=W,num_data_series=N,rho=rho,rho_update=None,sparsity_weight=lam,absolute_tolerance=1e-6,relative_tolerance=1e-6,max_iterations=maxit,verbose=False)
    n=W*N; m=n*(n+1)//2
    x=np.zeros(m);z=np.zeros(m);u=np.zeros(m)
    for it in range(maxit):
        zo=z
        x=solver.admm_update_x(args,u,z,S); z=solver.admm_update_z(args,u,x); u=solver.admm_update_u(u,x,z)
        if it>0:
            c=solver.check_convergence(args,u,x,z,zo)
            if c[0]: return it+1,True
    return maxit,False
rng=np.random.default_rng(0)
worst=0
for (N,W) in [(1,1),(2,2),(3,4),(4,10),(6,10),(10,6),(2,14)]:
    n=N*W
    for lam in [0.0,1e-3,0.11,1.0]:
        for kind in ["lo","hi","spread","rand"]:
            Q,_=np.linalg.qr(rng.normal(size=(n,n)))
            if kind=="lo": e=np.full(n,0.25)
            elif kind=="hi": e=np.full(n,4.0)
            elif kind=="spread": e=np.where(rng.random(n)<0.5,0.25,4.0)
            else: e=rng.uniform(0.25,4,size=n)
            S=(Q*e)@Q.T; S=(S+S.T)/2
            t=time.time(); it,ok=run(S,lam,W,N); 
            worst=max(worst,it)
            if not ok or it>200: print(N,W,lam,kind,it,ok,round(time.time()-t,2))
print("worst",worst)
