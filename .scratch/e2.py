import os, sys, time
os.environ["NUMBA_DISABLE_JIT"]="1"
import numpy as np, random
import fast_ticc
from fast_ticc import data_preparation as dp
print(dp.label_switching_cost_template([2,2]), dp.label_switching_cost_template([3]), dp.label_switching_cost_template([1,1,1]))
def gen(T,N,seed,regimes=3):
    rng=np.random.default_rng(seed)
    out=[]
    seglen=T//regimes
    for r in range(regimes):
        A=rng.normal(size=(N,N)); C=A@A.T+np.eye(N)*0.5
        out.append(rng.multivariate_normal(rng.normal(size=N)*3, C, size=seglen if r<regimes-1 else T-seglen*(regimes-1)))
    return np.vstack(out)
X=gen(120,2,1)
np.random.seed(0); random.seed(0)
t=time.time()
r=fast_ticc.ticc_labels(X, window_size=3, num_clusters=3, label_switching_cost=5, min_cluster_size=5, iteration_limit=20)
print("time",time.time()-t)
print(r.point_labels)
print(len(r.all_log_likelihood), sum(1 for l in r.point_labels if l>=0))
print(r.label_assignment_cost, -r.overall_log_likelihood + 5*sum(1 for a,b in zip(r.point_labels[1:-1],r.point_labels[2:-1]) if a!=b))
print(r.bayesian_information_criterion, r.calinski_harabasz_index)
# K larger to get an empty cluster
np.random.seed(0); random.seed(0)
r=fast_ticc.ticc_labels(X, window_size=3, num_clusters=6, label_switching_cost=50, min_cluster_size=3, iteration_limit=30)
lab=[l for l in r.point_labels if l>=0]
print(sorted(set(lab)), len(r.all_log_likelihood), len(lab), r.cluster_log_likelihood_mean)
