import os
os.environ["NUMBA_DISABLE_JIT"]="1"
import numpy as np
from fast_ticc.containers import arguments, model_state
from fast_ticc import cluster_metrics
lam=np.ones((2,2)); beta=np.ones(4)
ua=arguments.UserArguments(sparsity_weight=lam, iteration_limit=3, label_switching_cost=beta, min_cluster_size=1, min_meaningful_covariance=0, num_clusters=2, num_processors=1, window_size=1, biased_covariance=False)
data=np.array([[0.,10.],[1.,11.],[5.,20.],[6.,21.]])
ms=model_state.ModelState.empty_model(ua, data)
ms.point_labels=[0,0,1,1]
for c in ms.clusters:
    c.computed_covariance=np.eye(2); c.empirical_covariance=np.eye(2); c.train_inverse=np.eye(2); c.inverse_covariance=np.eye(2); c.stacked_data_mean=np.zeros(2); c.log_determinant=0.0
ms.point_log_likelihood=np.zeros((4,2))
d=ms.deep_copy()
print("shares lambda:", d.arguments.sparsity_weight is ms.arguments.sparsity_weight, "beta:", d.arguments.label_switching_cost is ms.arguments.label_switching_cost)
# CH
for k,c in enumerate(ms.clusters):
    c.stacked_data_mean=data[c.member_points].mean(axis=0)
def ch_def(X,labels,K):
    g=X.mean(axis=0); B=0; Wd=0
    for k in range(K):
        P=X[[i for i,l in enumerate(labels) if l==k]]; m=P.mean(axis=0)
        B+=len(P)*np.sum((m-g)**2); Wd+=np.sum((P-m)**2)
    return (B/(K-1))/(Wd/(len(X)-K))
print(cluster_metrics.calinski_harabasz_index(data, ms), ch_def(data,[0,0,1,1],2))
data2=data+np.array([100.,0.])
for k,c in enumerate(ms.clusters):
    c.stacked_data_mean=data2[c.member_points].mean(axis=0)
print(cluster_metrics.calinski_harabasz_index(data2, ms), ch_def(data2,[0,0,1,1],2))
